#!/usr/bin/env python3
"""tools_seeded.py — run the registered checks against the seeded changes kept under /verif/seeded/<id>/.

  tools_seeded.py [--tier quick|thorough] [id ...]

For each seeded change: `git -C /repo apply patch.diff`, run the check(s) named in meta.json (default: the property's
own check), `git -C /repo checkout -- .`, record exit code / VIOLATION lines in meta.json and print a table.
/repo must be clean before and is clean afterwards. Never run by the checks themselves."""
import json, os, subprocess, sys, glob, time

V = '/verif'


def sh(cmd, **kw):
    return subprocess.run(cmd, shell=True, stdout=subprocess.PIPE, stderr=subprocess.STDOUT, text=True, **kw)


def main():
    tier = 'quick'
    args = sys.argv[1:]
    if args[:1] == ['--tier']:
        tier = args[1]; args = args[2:]
    ids = args or sorted(os.path.basename(d) for d in glob.glob(V + '/seeded/*') if os.path.isdir(d))
    if sh('git -C /repo status --porcelain --untracked-files=no').stdout.strip():
        print('refusing: /repo has local modifications'); return 2
    rows = []
    for sid in ids:
        d = '%s/seeded/%s' % (V, sid)
        meta = json.load(open(d + '/meta.json'))
        checks = meta.get('checks') or [meta['property']]
        r = sh('git -C /repo apply %s/patch.diff' % d)
        if r.returncode != 0:
            print(sid, 'patch does not apply:', r.stdout[-300:]); rows.append((sid, meta['property'], 'PATCH-FAILS', '')); continue
        res = {}
        # evidence files describe the unchanged tree: keep them out of reach of the runs on the patched tree
        sh('rm -rf /tmp/verif_evidence_keep && cp -a %s/evidence /tmp/verif_evidence_keep' % V)
        try:
            for c in checks:
                t0 = time.time()
                r = sh('./check %s %s' % (c, tier), cwd=V)
                viol = [l for l in r.stdout.splitlines() if l.startswith('VIOLATION') or l.startswith('  ')]
                res[c] = dict(exit=r.returncode, wall_s=round(time.time() - t0, 1), lines=viol[:6], tail=r.stdout.splitlines()[-1:] if r.stdout else [])
        finally:
            sh('git -C /repo checkout -- .')
            sh('rm -rf %s/evidence && mv /tmp/verif_evidence_keep %s/evidence' % (V, V))
        meta.setdefault('results', {})[tier] = res
        json.dump(meta, open(d + '/meta.json', 'w'), indent=1)
        det = [c for c in res if res[c]['exit'] == 1]
        rows.append((sid, meta['property'], 'DETECTED by ' + ','.join(det) if det else 'MISSED (exit %s)' % ','.join(str(res[c]['exit']) for c in res), '; '.join(l.strip() for c in det for l in res[c]['lines'][1:2])))
        print(rows[-1], flush=True)
    print()
    for r in rows:
        print('| %s | %s | %s | %s |' % r)
    write_results()
    return 0


def write_results():
    """seeded/RESULTS.md: one line per kept change, from the results recorded in each meta.json"""
    out = ['# Seeded changes and which registered check reports them', '',
           'Each change was written by a sub-agent that saw only the property text and a scratch worktree; it compiles, the repository\'s',
           'own suite passes with it, and its demonstration (README.md / demo.cpp next to the patch) fails on the patched tree only.',
           '`python3 tools_seeded.py [--tier quick|thorough] [id...]` re-runs the checks (applies the patch to /repo, runs, reverts).', '',
           '| id | property | files | quick tier | thorough tier | first reporting oracle line |', '|---|---|---|---|---|---|']
    for d in sorted(glob.glob(V + '/seeded/*/')):
        try:
            m = json.load(open(d + 'meta.json'))
        except Exception:
            continue
        cells = []
        line = ''
        for tier in ('quick', 'thorough'):
            r = m.get('results', {}).get(tier)
            if not r:
                cells.append('not run'); continue
            det = [c for c in r if r[c]['exit'] == 1]
            cells.append(('reported by ' + ','.join(det)) if det else 'MISSED (exit %s)' % ','.join(str(r[c]['exit']) for c in r))
            if det and not line:
                ls = [l.strip() for c in det for l in r[c]['lines'] if not l.startswith('VIOLATION')]
                line = ls[0][:200] if ls else ''
        out.append('| %s | %s | %s | %s | %s | %s |' % (m['id'], m['property'], ' '.join(os.path.basename(f) for f in m.get('files_changed', [])), cells[0], cells[1], line.replace('|', '/')))
    notes = V + '/seeded/NOTES.md'
    if os.path.exists(notes):
        out += ['', open(notes).read()]
    open(V + '/seeded/RESULTS.md', 'w').write('\n'.join(out) + '\n')


sys.exit(main())
