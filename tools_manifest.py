#!/usr/bin/env python3
"""tools_manifest.py — regenerates /verif/MANIFEST.json from props.py and the per-property claims below.
Run after adding or withdrawing a check; never run by the checks themselves."""
import json, sys
sys.path.insert(0, '/verif')
import props

MC_TECH = 'stateless model checking of the implementation (bbmc): all schedules within preemption/delay/deviation bounds, HB state caching'
SQ_TECH = 'explicit-state BFS over operation histories of the implementation vs reference model (seqx)'

def bounds(pid, tier):
    out = []
    for r in props.PROPS[pid][tier]:
        if r['kind'] == 'mc':
            out.append('%s[%s] %s P<=%d%s%s' % (r['bin'], r['configs'], r['mode'], r['P'], (' D<=%d' % r['D']) if r['D'] else '', (' E<=%d' % r['E']) if r['E'] else ''))
        else:
            out.append('%s %s' % (r['bin'], ' '.join(r['args'])))
    return '; '.join(out)

CLAIMS = {
 'C01': ('bbmc', 'Exhaustive enumeration of all thread schedules of 35 client programs (2-3 threads, every push/pop variant and template flavour) over the real ConcurrentBoundedQueue within the bounds; each execution is checked for conservation, FIFO, try_ results and happens-before races on the slot payload. Bounded model checking of the implementation is the right level: the property is a for-all over schedules that tests only sample.', 'section 5 (C01), section 2'),
 'C02': ('bbmc', 'Exhaustive enumeration under x86-TSO store buffering of all schedules of the blocking producer/consumer pairings (single and batch wakers, two sleepers on one slot, timed exclusive pop); the owning scheduler reports any execution in which a thread stays blocked (lost wake-up) or a timed pop overruns its deadline on the virtual clock.', 'section 5 (C02), section 2'),
 'C03': ('bbmc', 'All schedules within the bounds of 2-3 threads inserting / looking up colliding keys (chosen groups and 7-bit tags, wrap-around, full fixed table, growth of the transient table) in the real ConcurrentFixedSwissTable / ConcurrentTransientHashSet/Map; per execution the call/return history is checked against insert-if-absent semantics: one winner per key, one address, later lookups hit, elements complete when visible.', 'section 5 (C03)'),
 'C04': ('bbmc', 'All schedules within the bounds of concurrent ensure/reserve/snapshot users of the real ConcurrentVector with block sizes 1-4, virtual clock scripts around the 64 s retirement delay and the 16-bit timestamp wrap; address stability, exactly-once construction/destruction and no access to a freed block table are checked on every execution.', 'section 5 (C04)'),
 'C05': ('bbmc', 'All schedules within the bounds of curated anyflow graphs (and, at lower bounds, of every dependency shape of a generated 3-vertex family) run on inplace, thread-per-vertex and thread-pool executors, with concurrent external injection and run/reset cycles; every execution is compared with a sequential demand-driven reference interpreter (targets, all data, set of processors run, inputs seen, closure state, wait()).', 'section 5 (C05)'),
 'C06': ('seqx', 'Breadth-first enumeration of every sequence of allocate/register_destructor/release/move requests (sizes and alignments around the page size and the 15-entry in-page arrays) on ExclusiveMonotonicBufferResource over recording page allocator and upstreams; after every step an interval map checks alignment, ownership, disjointness and content stability; release is checked for exactly-once return to the right place. The shared/swiss resources are exercised concurrently through bbmc (mc_mres) when listed in the tier.', 'section 5 (C06), section 3'),
 'C07': ('bbmc', 'All schedules within the bounds of submitters, workers, work stealing, the balance thread and stop() over the real ThreadPoolExecutor (tiny queue capacities so that full-queue blocking occurs), InplaceExecutor, AlwaysUseNewThreadExecutor and an executor that refuses submissions on enumerated attempts; run counters, futures and is_running_in() are checked per execution.', 'section 5 (C07)'),
 'C08': ('bbmc', 'All schedules within the bounds of set_value vs get/wait_for/on_finish/then registrations and CountDownLatch users on the real Future/Promise (futex and spin flavours), including spurious futex returns and timer firings as environment deviations; every waiter must return, every callback must run exactly once with the value.', 'section 5 (C08)'),
 'C09': ('bbmc', 'All schedules and x86-TSO store delays within the bounds of readers (Accessor scopes, nested, released, thread-local and shared modes) against a writer following the documented unlink / tick / low_water_mark protocol on the real Epoch; a reclaimed object that is still reachable by a reader inside its region trips the freed-memory oracle.', 'section 5 (C09)'),
 'C10': ('bbmc', 'All schedules within the bounds of retire() callers, the reclaim thread, readers and stop()/destructor of the real GarbageCollector with queue capacities 1-2; per reclaimer: run exactly once, never while a region open at retirement is still open, all run when stop() returned.', 'section 5 (C10)'),
 'C11': ('seqx', 'Exhaustive enumeration, not sampling: every value of the type alphabets is serialised and parsed back through ten stream presentations; every byte string up to the stated lengths (all 256 values up to length 2, a 16-byte schema alphabet beyond) is fed to 15 deserialisers under ASan+UBSan; protobuf compatibility is checked against protoc-generated code for all field orders and unknown-field placements.', 'section 5 (C11)'),
 'C12': ('seqx', 'Breadth-first enumeration of every sequence of container operations (positions begin/middle/end, counts 0-2, three element types, manager clear cycles) on ReusableVector/SwissString/ReusableManager against std::vector/std::string, compared element-wise after every step; capacity retention and allocation convergence are checked through the memory resource accounting.', 'section 5 (C12), section 3'),
 'C13': ('bbmc', 'Sequential half (seqx): all operation sequences on one coroutine futex against a reference model. Concurrent half: all schedules within the bounds of coroutine Futex wait/wake_one/wake_all/cancel, cancellable future awaits and tasks awaiting tasks across executors on the real code; a resume counter per suspension must be exactly one, on the right executor, with the right result.', 'section 5 (C13)'),
 'C14': ('bbmc', 'All schedules within the bounds of allocate/deallocate/for_each on IdAllocator, thread births and deaths on ThreadId, and emplace/take/non-matching take on DepositBox (ABA shapes included); a harness ownership map flags any value held twice, and stale versioned ids must never match.', 'section 5 (C14)'),
 'C15': ('bbmc', 'All schedules and TSO store delays within the bounds of publishers, consumers (single and batch, const and non-const ranges), close() and clear() on the real ConcurrentTransientTopic; every consumer must see exactly the published sequence and then the end.', 'section 5 (C15)'),
 'C16': ('bbmc', 'All schedules within the bounds of concurrent execute() callers, the consumer launched through an executor that may refuse (enumerated faults) and join() on the real ConcurrentExecutionQueue; items consumed exactly once in per-producer order by one consumer at a time, none stranded.', 'section 5 (C16)'),
 'C17': ('bbmc', 'All schedules within the bounds of allocate/deallocate on CachedPageAllocator/BatchPageAllocator/CountingPageAllocator stacks over a recording upstream, and push/pop/reserve on ObjectPool (strict and auto modes); an ownership map checks conservation and exclusivity per execution.', 'section 5 (C17)'),
 'C18': ('seqx', 'Breadth-first enumeration of every sequence of insert/emplace/find/erase-free operations, clear, reserve, copy and move on ConcurrentTransientHashSet/Map (macro operations crossing the 16/32/64 table sizes) against std::unordered_set/map; size, iteration and lookups for the whole key universe are compared after every step.', 'section 5 (C18), section 3'),
 'C19': ('bbmc', 'All schedules within the bounds, combined with enumerated histories of thread births/deaths and counter instance creation/destruction/move, on ConcurrentAdder/Maxer/Summer and EnumerableThreadLocal/CompactEnumerableThreadLocal; aggregates must be exact at every quiescent read.', 'section 5 (C19)'),
 'C20': ('bbmc', 'Sequential half (seqx): every sequence of write sizes around the inline-page and page-table capacities through LogStreamBuffer for three page sizes, scatter list and page return checked after each. Concurrent half (bbmc): all schedules within the bounds of writers, the appender thread, file rotation and close() on the real AsyncFileAppender with captured writev/close.', 'section 5 (C20)'),
}

def main():
    old = json.load(open('/verif/MANIFEST.json'))
    claimed = [p for p in sorted(CLAIMS) if p in props.PROPS and (len(sys.argv) == 1 or p in sys.argv[1:])]
    all_ids = [json.loads(l)['id'] for l in open('/verif/properties.jsonl')]
    checks = []
    for pid in claimed:
        eng, text, ref = CLAIMS[pid]
        pr = props.PROPS[pid]
        kinds = {r['kind'] for r in pr['quick'] + pr['thorough']}
        tech = MC_TECH if kinds == {'mc'} else SQ_TECH if kinds == {'seqx'} else (SQ_TECH + ' + ' + MC_TECH)
        if pid == 'C11': tech = 'exhaustive enumeration of values, presentations and byte strings up to a length bound against the implementation under ASan+UBSan (seqx driver)'
        note = 'quick: %s | thorough: %s | oracle: %s' % (bounds(pid, 'quick'), bounds(pid, 'thorough'), pr['oracle'])
        note += ' | assumed: ' + '; '.join(pr.get('assumptions', []) + (['x86-TSO + C++11 happens-before, no weaker hardware model; code inside uninstrumented shared libraries is atomic; trusted: bbmc runtime, self-tested by litmus programs on every setup'] if 'mc' in kinds else ['trusted: reference model and canonical form in the harness']))
        checks.append({
            'property_id': pid, 'quick_cmd': './check %s quick' % pid, 'thorough_cmd': './check %s thorough' % pid,
            'evidence_file': '/verif/evidence/%s.json' % pid, 'replay_cmd_template': './check %s --replay {path}' % pid,
            'engine': eng, 'level_claimed': {'category': 'model_checking', 'text': text, 'design_ref': 'DESIGN.md ' + ref},
            'level_note': note, 'technique': tech})
    engines = old['engines']
    for e in engines:
        e['serves_properties'] = [c['property_id'] for c in checks if c['engine'] == e['name'] or (e['name'] == 'seqx' and 'sq_' in c['level_note']) or (e['name'] == 'bbmc' and 'mc_' in c['level_note'])]
    na = [{'property_id': p, 'reason': 'no check registered yet (see DESIGN.md section 8)'} for p in all_ids if p not in claimed]
    old['checks'] = checks; old['engines'] = engines; old['not_applicable'] = na
    old['notes'] = ('Generated by tools_manifest.py from props.py. No source hooks are needed: the harnesses compile /repo/src themselves. '
                    'Defects of baidu/babylon found by the checks are repaired by unguarded "fix:" commits in /repo (19 so far) and listed in known_findings.json as fixed; '
                    'one finding (C12, ReusableVector called with an argument aliasing its own element, 8 call shapes) is recorded there and printed as KNOWN-FINDING. '
                    'Seeded property-breaking changes and which check reports them: seeded/RESULTS.md. DESIGN.md section 9 describes the machinery as built.')
    json.dump(old, open('/verif/MANIFEST.json', 'w'), indent=1)
    print('claimed', len(checks), 'not_applicable', [x['property_id'] for x in na])

main()
