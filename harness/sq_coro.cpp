// sq_coro.cpp — C13 (sequential half): every sequence of wait / non-suspending wait / wake_one / wake_all / cancel on one
// coroutine Futex (inplace executor, so everything runs on the calling thread) against a reference model: the set of
// suspended waiters. Each suspension must be resumed exactly once, by exactly the operation the model says.
#include <string>
#include <vector>

#include "babylon/coroutine/futex.h"
#include "babylon/executor.h"
#include "seqx.h"

using babylon::CoroutineTask;
using babylon::InplaceExecutor;
using babylon::coroutine::Futex;
typedef Futex::Cancellation FCancel;

enum { F_WAIT, F_WAIT_MISMATCH, F_WAKE_ONE, F_WAKE_ALL, F_CANCEL0, F_NUM = F_CANCEL0 + 6 };
struct FutexSys {
  static const int MAXW = 6;
  Futex futex; FCancel token[MAXW]; bool have_token[MAXW]; int resumed[MAXW]; bool suspended[MAXW]; char how[MAXW]; int n = 0; babylon::Future<void> fut[MAXW];   // how[i]: N never suspended, S suspended, W woken, C cancelled
  std::vector<int> order;   // suspended waiters, oldest first
  static std::string name() { return "coroutine Futex"; }
  static int num_ops() { return F_NUM; }
  static std::string op_name(int op) {
    if (op == F_WAIT) return "wait(matching value)"; if (op == F_WAIT_MISMATCH) return "wait(non-matching value)"; if (op == F_WAKE_ONE) return "wake_one"; if (op == F_WAKE_ALL) return "wake_all";
    return "cancel(waiter #" + std::to_string(op - F_CANCEL0) + ")";
  }
  FutexSys() {
    // the per-wait bookkeeping lives in a process-wide DepositBox: start every history from a fresh one (run with --jobs 1)
    auto& box = babylon::DepositBox<Futex::Node>::instance(); box.~DepositBox(); new (&box) babylon::DepositBox<Futex::Node>();
    futex.value() = 7; for (int i = 0; i < MAXW; i++) { have_token[i] = false; resumed[i] = 0; suspended[i] = false; how[i] = '-'; } }
  ~FutexSys() { futex.wake_all(); }   // let the frames of still suspended coroutines run to completion
  static CoroutineTask<> waiter(FutexSys* s, int i, uint64_t expect) {
    co_await s->futex.wait(expect).on_suspend([s, i](FCancel&& t) { s->token[i] = std::move(t); s->have_token[i] = true; });
    s->resumed[i]++;
    co_return;
  }
  bool enabled(int op) { if (op == F_WAIT || op == F_WAIT_MISMATCH) return n < MAXW; if (op >= F_CANCEL0) return op - F_CANCEL0 < n && have_token[op - F_CANCEL0]; return true; }
  int live() { int c = 0; for (int i = 0; i < n; i++) if (suspended[i]) c++; return c; }
  std::string sync(const char* what) {
    // fold what actually happened into the model and compare
    for (int i = 0; i < n; i++) { if (resumed[i] > 1) return std::string(what) + ": a suspended coroutine was resumed twice"; }
    return "";
  }
  std::string apply(int op) {
    auto& ex = InplaceExecutor::instance();
    if (op == F_WAIT || op == F_WAIT_MISMATCH) {
      int i = n++;
      fut[i] = ex.execute(waiter, this, i, (uint64_t)(op == F_WAIT ? 7 : 8));
      if (op == F_WAIT) { if (!have_token[i] || resumed[i] != 0) return "a wait with the matching value did not suspend"; suspended[i] = true; how[i] = 'S'; order.push_back(i); }
      else { if (have_token[i] || resumed[i] != 1) return "a wait with a non-matching value suspended (or was not resumed at once)"; how[i] = 'N'; }
      return "";
    }
    int before[MAXW]; for (int i = 0; i < n; i++) before[i] = resumed[i];
    if (op == F_WAKE_ONE || op == F_WAKE_ALL) {
      int want = op == F_WAKE_ONE ? (live() > 0 ? 1 : 0) : live();
      int r = op == F_WAKE_ONE ? futex.wake_one() : futex.wake_all();
      int got = 0; for (int i = 0; i < n; i++) { int d = resumed[i] - before[i]; if (d < 0 || d > 1) return "a coroutine was resumed twice by one wake"; if (d == 1) { if (!suspended[i]) return "a wake resumed a coroutine that was not suspended (already resumed or cancelled)"; suspended[i] = false; how[i] = 'W'; got++; } }
      if (r != want) return std::string(op == F_WAKE_ONE ? "wake_one" : "wake_all") + " returned " + std::to_string(r) + " with " + std::to_string(want == 0 ? 0 : live() + got) + " coroutine(s) suspended";
      if (got != r) return "the return value of a wake differs from the number of coroutines it resumed";
    } else {
      int k = op - F_CANCEL0; bool want = suspended[k];
      bool r = token[k]();
      if (r != want) return want ? "cancelling a suspended wait failed" : "cancelling a wait that was already resumed succeeded";
      for (int i = 0; i < n; i++) { int d = resumed[i] - before[i]; if (i == k ? d != (want ? 1 : 0) : d != 0) return "a cancellation resumed the wrong coroutine (or not exactly its own)"; }
      if (want) how[k] = 'C';
      suspended[k] = false;
    }
    std::vector<int> o2; for (int i : order) if (suspended[i]) o2.push_back(i); order = o2;
    return "";
  }
  std::string check() {
    for (int i = 0; i < n; i++) {
      if (suspended[i] && resumed[i] != 0) return "a coroutine the model still has suspended was resumed";
      if (!suspended[i] && resumed[i] != 1) return "a coroutine that was woken, cancelled or never suspended was not resumed exactly once";
      if (!suspended[i] && !fut[i].ready()) return "the task future of a finished coroutine is not ready";
    }
    return "";
  }
  std::string canon() { std::string s = "n=" + std::to_string(n) + " susp="; for (int i : order) s += std::to_string(i) + ","; s += " how="; for (int i = 0; i < n; i++) s += how[i]; return s; }   // how a waiter left is kept: the implementation's list surgery differs between wake and cancel
};

static void register_systems() { seqx::add<FutexSys>(); }
SEQX_MAIN("sq_coro")
