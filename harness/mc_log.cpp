// mc_log.cpp — C20 (concurrent half): AsyncFileAppender. Entries written before close() reach their file exactly once,
// unmixed, per thread in order; every page goes back to the page allocator.
#include <atomic>
#include <string>
#include <thread>
#include <vector>
#include <sys/syscall.h>
#include <sys/uio.h>
#include <unistd.h>

#include "babylon/logging/async_file_appender.h"
#include "babylon/logging/log_entry.h"
#include "bbmc.h"

using babylon::AsyncFileAppender;
using babylon::FileObject;
using babylon::LogEntry;
using babylon::LogStreamBuffer;

// ---- fake files: writev/close on descriptors >= 1000 are captured by the harness --------------------------
static std::string g_file[8]; static int g_closed[8];
extern "C" ssize_t writev(int fd, const struct iovec* iov, int n) {
  if (fd >= 1000 && fd < 1008) { ssize_t total = 0; for (int i = 0; i < n; i++) { g_file[fd - 1000].append((const char*)iov[i].iov_base, iov[i].iov_len); total += iov[i].iov_len; } return total; }
  return syscall(SYS_writev, fd, iov, n);
}
extern "C" int close(int fd) {
  if (fd >= 1000 && fd < 1008) { g_closed[fd - 1000]++; return 0; }
  return (int)syscall(SYS_close, fd);
}
struct TestFile : public FileObject {
  int fd; bool rotate; int calls = 0; int outage = 0;   // outage: the first `outage` calls report that no descriptor is available
  TestFile(int f, bool r) : fd(f), rotate(r) {}
  std::tuple<int, int> check_and_get_file_descriptor() noexcept override {
    calls++;
    if (calls <= outage) return {-1, -1};
    if (rotate && calls == 1) { int old = fd; fd = fd + 1; return {fd, old}; }   // rotation noticed at the first batch
    return {fd, -1};
  }
};
struct CountingAllocator : public babylon::PageAllocator {
  static const int NPOOL = 1400; size_t psize; std::atomic<int> balance{0}; std::atomic<int> next{0}; alignas(64) char pool[NPOOL][64];
  explicit CountingAllocator(size_t p) : psize(p) { bbmc::background(&balance, sizeof balance); bbmc::background(&next, sizeof next); }
  size_t page_size() const noexcept override { return psize; }
  using PageAllocator::allocate; using PageAllocator::deallocate;
  void allocate(void** pages, size_t num) noexcept override { for (size_t i = 0; i < num; i++) { int k = next.fetch_add(1, std::memory_order_relaxed); bbmc::require(k < NPOOL, "page pool exhausted"); pages[i] = pool[k]; balance.fetch_add(1, std::memory_order_relaxed); } }
  void deallocate(void** pages, size_t num) noexcept override { for (size_t i = 0; i < num; i++) { bbmc::check((char*)pages[i] >= &pool[0][0] && (char*)pages[i] < &pool[NPOOL][0], "a foreign pointer was returned to the page allocator"); balance.fetch_sub(1, std::memory_order_relaxed); } }
};

struct Cfg { const char* name; int cap; int threads; int entries; int len[2][2]; bool rotate; bool with_empty; int outage = 0; };
static const Cfg cfgs[] = {
    {"cap 1: 1 thread x2 entries (63, 65 bytes), close()", 1, 1, 2, {{63, 65}, {0, 0}}, false, false},
    {"cap 2: 2 threads x1 entry (64, 1 bytes), close()", 2, 2, 1, {{64, 0}, {1, 0}}, false, false},
    {"cap 2: 2 threads x2 entries, close()", 2, 2, 2, {{5, 70}, {64, 3}}, false, false},
    {"cap 4: 1 thread x2 entries, file rotates between batches", 4, 1, 2, {{10, 20}, {0, 0}}, true, false},
    {"cap 4: 1 thread writes \"A\", an empty entry, \"B\"", 4, 1, 2, {{1, 1}, {0, 0}}, false, true},
    {"cap 1: 2 threads x2 entries with a full queue", 1, 2, 2, {{1, 2}, {3, 4}}, false, false},
    {"cap 4: one entry of 1100 pages (more scatter segments than one writev takes) followed by a short one", 4, 1, 2, {{70400 - 30, 7}, {0, 0}}, false, false},
    {"cap 4: the file object has no descriptor for the first two rounds: entries may be dropped, their pages may not", 4, 1, 2, {{100, 5}, {0, 0}}, false, false, 2},
};
int harness_configs() { return sizeof(cfgs) / sizeof(cfgs[0]); }
const char* harness_config_name(int c) { return cfgs[c].name; }
const char* harness_name() { return "mc_log"; }

static std::string payload(int t, int e, int len) { std::string s; for (int i = 0; i < len; i++) s.push_back((char)('a' + (t * 7 + e * 3 + i) % 26)); if (len > 0) { s[0] = (char)('A' + t * 2 + e); } return s; }

void harness_main(int c) {
  const Cfg& cf = cfgs[c];
  bbmc::sleeps_advance_clock(false);
  for (int i = 0; i < 8; i++) { g_file[i].clear(); g_closed[i] = 0; }
  CountingAllocator alloc(64);
  TestFile file(1000, cf.rotate); file.outage = cf.outage;
  std::string want[2][3];
  {
    AsyncFileAppender app; app.set_page_allocator(alloc); app.set_queue_capacity(cf.cap);
    bbmc::require(app.initialize() == 0, "initialize");
    std::vector<std::thread> ts;
    for (int t = 0; t < cf.threads; t++) ts.emplace_back([&, t] {
      LogStreamBuffer buf; buf.set_page_allocator(alloc);
      for (int e = 0; e < cf.entries; e++) {
        buf.begin(); std::string s = payload(t, e, cf.len[t][e]); buf.sputn(s.data(), (std::streamsize)s.size()); want[t][e] = s;
        app.write(buf.end(), &file);
        if (cf.with_empty && e == 0) { buf.begin(); app.write(buf.end(), &file); }   // an entry into which nothing was streamed
      }
    });
    for (auto& t : ts) t.join();
    bbmc::check(app.close() == 0, "close failed");
    bbmc::check(app.pending_size() == 0, "entries are still pending after close()");
  }
  // ---- oracles ---------------------------------------------------------------------------------
  std::string all = g_file[0] + g_file[1];   // rotation: old file then new file
  // the file content must be an interleaving of whole entries, each exactly once, per thread in program order
  size_t pos = 0; int nexte[2] = {0, 0}; int remaining = cf.threads * cf.entries;
  while (pos < all.size()) {
    bool matched = false;
    for (int t = 0; t < cf.threads && !matched; t++) {
      for (int e = nexte[t]; e < cf.entries && !matched; e++) {
        const std::string& w = want[t][e];
        if (!w.empty() && all.compare(pos, w.size(), w) == 0) { pos += w.size(); remaining -= e + 1 - nexte[t]; nexte[t] = e + 1; matched = true; }
        if (!cf.outage) break;   // only a round without a descriptor may drop entries; later ones still arrive whole and in order
      }
    }
    bbmc::check(matched, "the file content is not an interleaving of whole entries in per-thread order (an entry is torn, duplicated, reordered or mixed with another)");
  }
  for (int t = 0; t < cf.threads; t++) for (int e = nexte[t]; e < cf.entries; e++) if (want[t][e].empty()) { nexte[t]++; remaining--; }
  if (!cf.outage) bbmc::check(remaining == 0, "an entry written before close() never reached its file");   // without a descriptor the entries of that round are dropped
  bbmc::check(alloc.balance.load() == 0, "pages backing written entries were not all returned to the page allocator");
  if (cf.rotate) bbmc::check(g_closed[0] == 1, "the descriptor handed back on rotation was not closed exactly once");
}
