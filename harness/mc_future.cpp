// mc_future.cpp — C08: Future / Promise / CountDownLatch under the bbmc scheduler.
#include <atomic>
#include <chrono>
#include <thread>
#include <vector>

#include "babylon/future.h"
#include "bbmc.h"

using babylon::CountDownLatch;
using babylon::Future;
using babylon::Promise;

struct Val { int a; int b; };

static const char* names[] = {
    "set | get | on_finish",
    "set | on_finish | on_finish",
    "set | wait_for(1ms) | get",
    "set | wait_for(0) | wait_for(-1ns)",
    "set | wait_for(nanoseconds::max)",
    "set | then -> get of chained future",
    "latch(2): count_down | count_down | get",
    "latch(0) ready at once; latch(1): count_down | on_finish",
    "set | ready() poller | on_finish",
    "set | get | get (two sleepers)",
    "set | wait_for(1s) | on_finish | on_finish",
    "promise.on_finish | future.on_finish | set (three registration paths)",
};
int harness_configs() { return sizeof(names) / sizeof(names[0]); }
const char* harness_config_name(int c) { return names[c]; }
const char* harness_name() { return "mc_future"; }

struct Obs {
  int cb_runs[4] = {0, 0, 0, 0}; int cb_a[4] = {0, 0, 0, 0}, cb_b[4] = {0, 0, 0, 0}; bool cb_after_set[4] = {true, true, true, true};
  int got_a[4] = {-1, -1, -1, -1}; int wait_ret[4] = {-1, -1, -1, -1}; int64_t wait_elapsed[4] = {0, 0, 0, 0}; bool ready_when_true[4] = {true, true, true, true};
  std::atomic<int> set_started{0};
};

static void reg(Future<Val>& f, Obs& o, int i) {
  f.on_finish([&o, i](Val& v) { o.cb_runs[i]++; o.cb_a[i] = v.a; o.cb_b[i] = v.b; o.cb_after_set[i] = o.set_started.load(std::memory_order_relaxed) != 0; });
}
template <class D>
static void waiter(Future<Val> f, Obs& o, int i, D timeout, int64_t timeout_ns) {
  int64_t t0 = bbmc::now_ns();
  bool r = f.wait_for(timeout);
  o.wait_elapsed[i] = bbmc::now_ns() - t0; o.wait_ret[i] = r;
  if (r) o.ready_when_true[i] = f.ready();
  (void)timeout_ns;
}

void harness_main(int cfg) {
  Obs o;
  Promise<Val> p;
  Future<Val> f = p.get_future();
  bbmc::race_scope(p._context->pointer(), sizeof(Val));
  auto setter = [&] { o.set_started.store(1, std::memory_order_relaxed); p.set_value(Val{7, 9}); };
  std::vector<std::thread> ts;
  int ncb = 0; int nget = 0; int64_t wait_ns[4] = {0, 0, 0, 0}; int nwait = 0;
  switch (cfg) {
    case 0:
      ts.emplace_back(setter);
      ts.emplace_back([&, f]() mutable { o.got_a[0] = f.get().a; }); nget = 1;
      ts.emplace_back([&, f]() mutable { reg(f, o, 0); }); ncb = 1;
      break;
    case 1:
      ts.emplace_back(setter);
      ts.emplace_back([&, f]() mutable { reg(f, o, 0); });
      ts.emplace_back([&, f]() mutable { reg(f, o, 1); }); ncb = 2;
      break;
    case 2:
      ts.emplace_back(setter);
      ts.emplace_back([&, f] { waiter(f, o, 0, std::chrono::milliseconds(1), 1000000); }); wait_ns[0] = 1000000; nwait = 1;
      ts.emplace_back([&, f]() mutable { o.got_a[0] = f.get().a; }); nget = 1;
      break;
    case 3:
      ts.emplace_back(setter);
      ts.emplace_back([&, f] { waiter(f, o, 0, std::chrono::nanoseconds(0), 0); });
      ts.emplace_back([&, f] { waiter(f, o, 1, std::chrono::nanoseconds(-1), 0); }); nwait = 2;
      break;
    case 4:
      ts.emplace_back(setter);
      ts.emplace_back([&, f] { waiter(f, o, 0, std::chrono::nanoseconds::max(), INT64_MAX); }); wait_ns[0] = INT64_MAX; nwait = 1;
      break;
    case 5: {
      ts.emplace_back(setter);
      ts.emplace_back([&, f]() mutable {
        auto g = f.then([&o](Val& v) { o.cb_runs[0]++; o.cb_a[0] = v.a; o.cb_b[0] = v.b; o.cb_after_set[0] = o.set_started.load(std::memory_order_relaxed) != 0; return v.a + v.b; });
        o.got_a[1] = g.get();
      });
      ncb = 1;
      break;
    }
    case 6: case 7: {
      // latch configurations do not use the promise above; satisfy its contract first
      p.set_value(Val{7, 9});
      if (cfg == 6) {
        CountDownLatch<> latch(2); auto lf = latch.get_future();
        std::atomic<int> downs{0};
        std::thread a([&] { downs.fetch_add(1, std::memory_order_relaxed); latch.count_down(); });
        std::thread b([&] { downs.fetch_add(1, std::memory_order_relaxed); latch.count_down(); });
        std::thread c([&, lf]() mutable { lf.get(); bbmc::check(downs.load(std::memory_order_relaxed) == 2, "latch future became ready before its count reached zero"); });
        a.join(); b.join(); c.join();
        bbmc::check(lf.ready(), "latch future not ready although the count reached zero");
      } else {
        CountDownLatch<> l0(0); bbmc::check(l0.get_future().ready(), "latch(0) is not ready at once");
        CountDownLatch<> l1(1); auto lf = l1.get_future(); int runs = 0; std::atomic<int> downs{0};
        bbmc::check(!lf.ready(), "latch(1) ready before any count_down");
        std::thread a([&] { downs.store(1, std::memory_order_relaxed); l1.count_down(); });
        std::thread b([&, lf]() mutable { lf.on_finish([&] { runs++; bbmc::check(downs.load(std::memory_order_relaxed) == 1, "latch callback ran before the count reached zero"); }); });
        a.join(); b.join();
        bbmc::check(runs == 1, "latch callback did not run exactly once");
      }
      return;
    }
    case 8:
      ts.emplace_back(setter);
      ts.emplace_back([&, f] { while (!f.ready()) sched_yield(); o.got_a[0] = const_cast<Future<Val>&>(f).get().a; }); nget = 1;
      ts.emplace_back([&, f]() mutable { reg(f, o, 0); }); ncb = 1;
      break;
    case 9:
      ts.emplace_back(setter);
      ts.emplace_back([&, f]() mutable { o.got_a[0] = f.get().a; });
      ts.emplace_back([&, f]() mutable { o.got_a[1] = f.get().a; }); nget = 2;
      break;
    case 10:
      ts.emplace_back(setter);
      ts.emplace_back([&, f] { waiter(f, o, 0, std::chrono::seconds(1), 1000000000LL); }); wait_ns[0] = 1000000000LL; nwait = 1;
      ts.emplace_back([&, f]() mutable { reg(f, o, 0); reg(f, o, 1); }); ncb = 2;
      break;
    case 11:
      ts.emplace_back([&] { p.on_finish([&o](Val& v) { o.cb_runs[0]++; o.cb_a[0] = v.a; o.cb_b[0] = v.b; o.cb_after_set[0] = o.set_started.load(std::memory_order_relaxed) != 0; }); });
      ts.emplace_back([&, f]() mutable { reg(f, o, 1); });
      ts.emplace_back(setter); ncb = 2;
      break;
  }
  for (auto& t : ts) t.join();
  // ---- oracles -------------------------------------------------------------------------------------
  for (int i = 0; i < ncb; i++) {
    bbmc::check(o.cb_runs[i] == 1, o.cb_runs[i] == 0 ? "a registered callback never ran although the value was set" : "a registered callback ran more than once");
    bbmc::check(o.cb_a[i] == 7 && o.cb_b[i] == 9, "callback did not observe the value that was set");
    bbmc::check(o.cb_after_set[i], "callback ran before set_value began");
  }
  for (int i = 0; i < nget; i++) bbmc::check(o.got_a[i] == 7, "get() did not return the value that was set");
  if (cfg == 5) bbmc::check(o.got_a[1] == 16, "then(): chained future did not deliver the callback's result");
  if (cfg == 9) bbmc::check(o.got_a[1] == 7, "second get() did not return the value");
  for (int i = 0; i < nwait; i++) {
    bbmc::check(o.wait_ret[i] != 1 || o.ready_when_true[i], "wait_for returned true although the value is not set");
    if (o.wait_ret[i] == 0) bbmc::check(o.wait_elapsed[i] >= wait_ns[i], "wait_for returned false before the requested time elapsed");
    bbmc::observe(o.wait_ret[i]);
  }
  bbmc::check(f.ready() && f.get().a == 7, "future not ready after set_value returned");
}
