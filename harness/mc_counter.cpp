// mc_counter.cpp — C19: ConcurrentAdder/Summer/Maxer/Miner and (Compact)EnumerableThreadLocal across thread and instance churn.
#include <atomic>
#include <limits>
#include <memory>
#include <thread>
#include <vector>

#include "babylon/concurrent/counter.h"
#include "babylon/concurrent/thread_local.h"
#include "bbmc.h"

using babylon::ConcurrentAdder;
using babylon::ConcurrentMaxer;
using babylon::ConcurrentMiner;
using babylon::ConcurrentSummer;
using babylon::EnumerableThreadLocal;

static const char* names[] = {
    "adder: two counting threads, a later generation reusing their slots, exact sum after each join",
    "adder instance churn: A counted and destroyed, B created in its storage starts at zero",
    "summer: sum and count over two generations of threads",
    "maxer/miner: one sample chosen from {min,-1,0,1,max}, reset, second period",
    "maxer<double>/miner<double>: one sample chosen from {lowest,-5,0,5,max}",
    "enumerable thread local: local() private and stable, for_each covers all slots, for_each_alive exactly the live ones",
    "two enumerable thread locals of one type: a live thread that never touched the second instance",
    "adder: two counting threads || reading thread (bounded read)",
    "history of 4 steps chosen from {count on A, count on A and B, re-create B, move A} with a check after every step",
    "adder moved while empty and while holding counts",
    "instance churn across threads: one thread destroys a used counter || another constructs, counts on and reads a new one",
    "enumerable thread local moved (assignment and construction) by a thread that has used both instances before: local() and for_each follow the storage",
    "1025 live adders (two storage groups): an adder of the second group is move-assigned to one of the first; sums follow the move",
};
int harness_configs() { return sizeof(names) / sizeof(names[0]); }
const char* harness_config_name(int c) { return names[c]; }
const char* harness_name() { return "mc_counter"; }

static void run(std::function<void()> f) { std::thread t(f); t.join(); }

void harness_main(int cfg) {
  switch (cfg) {
    case 0: {
      ConcurrentAdder a;
      bbmc::check(a.value() == 0, "a new adder does not start from zero");
      { std::thread t1([&] { a << 1; a << 10; }), t2([&] { a << 100; }); t1.join(); t2.join(); }
      bbmc::check(a.value() == 111, "adder lost or invented a contribution of threads that have exited");
      { std::thread t3([&] { a << 1000; }); t3.join(); }   // reuses a dead thread's slot
      bbmc::check(a.value() == 1111, "a thread reusing a dead thread's slot corrupted the sum");
      a << 5; bbmc::check(a.value() == 1116, "main thread contribution lost");
      a.reset(); bbmc::check(a.value() == 0, "reset did not clear the adder");
      break;
    }
    case 1: {
      std::unique_ptr<ConcurrentAdder> a(new ConcurrentAdder);
      ConcurrentAdder other; other << 7;
      run([&] { *a << 5; other << 1; });
      bbmc::check(a->value() == 5, "adder wrong before destruction");
      a.reset();
      ConcurrentAdder b;   // recycles the instance id (and cache-line offset) of a
      bbmc::check(b.value() == 0, "a new counter recycling the storage of a destroyed one does not start from zero");
      run([&] { b << 2; });
      bbmc::check(b.value() == 2 && other.value() == 8, "counters sharing a cache line disturbed each other");
      break;
    }
    case 2: {
      ConcurrentSummer s;
      { std::thread t1([&] { s << 3; s << 4; }), t2([&] { s << 10; }); t1.join(); t2.join(); }
      run([&] { s << ConcurrentSummer::Summary{100, 2}; });
      auto v = s.value();
      bbmc::check(v.sum == 117 && v.num == 5, "summer does not report the exact sum and count");
      break;
    }
    case 3: {
      const ssize_t vals[5] = {std::numeric_limits<ssize_t>::min(), -1, 0, 1, std::numeric_limits<ssize_t>::max()};
      ssize_t v = vals[bbmc::choose(5)];
      ConcurrentMaxer mx; ConcurrentMiner mn; ssize_t out = 12345;
      bbmc::check(!mx.value(out) && !mn.value(out), "an empty maxer/miner reports a sample");
      run([&] { mx << v; mn << v; });
      bbmc::check(mx.value(out) && out == v, "maxer does not report the only sample of the period as its extreme");
      bbmc::check(mn.value(out) && out == v, "miner does not report the only sample of the period as its extreme");
      run([&] { mx << 0; mn << 0; });
      bbmc::check(mx.value(out) && out == (v > 0 ? v : 0), "maxer wrong after a second sample from a thread reusing the slot");
      bbmc::check(mn.value(out) && out == (v < 0 ? v : 0), "miner wrong after a second sample from a thread reusing the slot");
      mx.reset(); mn.reset();
      bbmc::check(!mx.value(out) && !mn.value(out), "maxer/miner still report a sample of the previous period after reset");
      run([&] { mx << -7; mn << 7; });
      bbmc::check(mx.value(out) && out == -7 && mn.value(out) && out == 7, "maxer/miner mix periods");
      break;
    }
    case 4: {
      const double vals[5] = {std::numeric_limits<double>::lowest(), -5.0, 0.0, 5.0, std::numeric_limits<double>::max()};
      double v = vals[bbmc::choose(5)];
      babylon::GenericsConcurrentMaxer<double> mx; babylon::GenericsConcurrentMiner<double> mn; double out = 1.5;
      run([&] { mx << v; mn << v; });
      bbmc::check(mx.value(out) && out == v, "maxer<double> does not report the only sample of the period as its extreme");
      bbmc::check(mn.value(out) && out == v, "miner<double> does not report the only sample of the period as its extreme");
      break;
    }
    case 5: case 6: {
      struct Tag5 { int v = 0; }; struct Tag6 { int v = 0; };
      if (cfg == 5) {
        EnumerableThreadLocal<Tag5> tl;
        Tag5* mine = &tl.local(); mine->v = 1;
        bbmc::check(&tl.local() == mine, "local() is not stable within a thread");
        Tag5* p1 = nullptr; Tag5* p2 = nullptr; std::atomic<int> go{0};
        std::atomic<int> have1{0};
        std::thread t1([&] { p1 = &tl.local(); p1->v = 10; bbmc::check(&tl.local() == p1, "local() is not stable within a thread"); have1.store(1, std::memory_order_release); while (!go.load(std::memory_order_acquire)) sched_yield(); });
        while (!have1.load(std::memory_order_acquire)) sched_yield();   // t2 is born while t1 is alive
        std::thread t2([&] { p2 = &tl.local(); p2->v = 100; });
        t2.join();
        // t1 is still alive, t2 is dead
        int all = 0, alive = 0;
        tl.for_each([&](Tag5* b, Tag5* e) { for (; b != e; ++b) all += b->v; });
        tl.for_each_alive([&](Tag5* b, Tag5* e) { for (; b != e; ++b) alive += b->v; });
        const auto& ctl = tl; int calive = 0; ctl.for_each_alive([&](const Tag5* b, const Tag5* e) { for (; b != e; ++b) calive += b->v; });
        go.store(1, std::memory_order_release); t1.join();
        bbmc::check(p1 != p2 && p1 != mine && p2 != mine, "two live threads were given the same local()");
        bbmc::check(all == 111, "for_each does not cover every slot that was ever used");
        bbmc::check(alive == 11 && calive == 11, "for_each_alive does not visit exactly the slots of live threads");
      } else {
        EnumerableThreadLocal<Tag6> first, second;
        first.local().v = 1;   // `second` is never used by anybody: it owns no storage at all
        std::atomic<int> go{0}; std::atomic<int> touched{0};
        // this thread touches only `first`; its thread id lies beyond the storage of `second`
        std::thread t1([&] { first.local().v = 10; touched.store(1, std::memory_order_release); while (!go.load(std::memory_order_acquire)) sched_yield(); });
        while (!touched.load(std::memory_order_acquire)) sched_yield();
        int alive2 = 0; second.for_each_alive([&](Tag6* b, Tag6* e) { for (; b != e; ++b) alive2 += b->v; });
        const auto& c2 = second; int calive2 = 0; c2.for_each_alive([&](const Tag6* b, const Tag6* e) { for (; b != e; ++b) calive2 += b->v; });
        int alive1 = 0; first.for_each_alive([&](Tag6* b, Tag6* e) { for (; b != e; ++b) alive1 += b->v; });
        go.store(1, std::memory_order_release); t1.join();
        bbmc::check(calive2 == 0 && alive2 == 0, "for_each_alive of an instance visited storage of live threads that never used this instance");
        bbmc::check(alive1 == 11, "for_each_alive does not visit exactly the slots of live threads");
      }
      break;
    }
    case 7: {
      ConcurrentAdder a; ssize_t seen = -1; std::atomic<int> done1{0}, done2{0}, started1{0}, started2{0};
      std::thread t1([&] { started1.store(1, std::memory_order_relaxed); a << 1; done1.store(1, std::memory_order_release); });
      std::thread t2([&] { started2.store(1, std::memory_order_relaxed); a << 2; done2.store(1, std::memory_order_release); });
      ssize_t lo = 0, hi = 0;
      std::thread r([&] {
        lo = (done1.load(std::memory_order_acquire) ? 1 : 0) + (done2.load(std::memory_order_acquire) ? 2 : 0);
        seen = a.value();
        hi = (started1.load(std::memory_order_relaxed) ? 1 : 0) + (started2.load(std::memory_order_relaxed) ? 2 : 0);
      });
      t1.join(); t2.join(); r.join();
      bbmc::check(seen >= lo && seen <= hi && (seen == 0 || seen == 1 || seen == 2 || seen == 3), "a concurrent read is outside [completed before it began, started before it ended]");
      bbmc::check(a.value() == 3, "sum wrong at quiescence");
      break;
    }
    case 8: {
      std::unique_ptr<ConcurrentAdder> a(new ConcurrentAdder), b(new ConcurrentAdder);
      ssize_t ea = 0, eb = 0;
      for (int step = 0; step < 4; step++) {
        switch (bbmc::choose(4)) {
          case 0: run([&] { *a << 1; }); ea += 1; break;
          case 1: run([&] { *a << 2; *b << 3; }); ea += 2; eb += 3; break;
          case 2: b.reset(); b.reset(new ConcurrentAdder); eb = 0; break;
          case 3: { std::unique_ptr<ConcurrentAdder> m(new ConcurrentAdder(std::move(*a))); a = std::move(m); break; }
        }
        bbmc::check(a->value() == ea && b->value() == eb, "after a history of counting / re-creation / move an adder does not report the exact sum");
      }
      break;
    }
    case 10: {
      // the new counter may be given the identity (instance id, cache-line offset) the dying one releases
      std::unique_ptr<ConcurrentAdder> a(new ConcurrentAdder); ConcurrentSummer* sm = new ConcurrentSummer;
      *a << 5; *sm << 9;
      int first = -1, after = -1; long ssum = -1, scount = -1;
      std::thread t1([&] { a.reset(); delete sm; });
      std::thread t2([&] { ConcurrentAdder b; first = (int)b.value(); b << 1; b << 1; after = (int)b.value(); ConcurrentSummer s2; s2 << 3; auto v = s2.value(); ssum = v.sum; scount = (long)v.num; });
      t1.join(); t2.join();
      bbmc::check(first == 0, "a counter constructed while another one is being destroyed does not start from zero");
      bbmc::check(after == 2, "a counter constructed while another one is being destroyed lost (or gained) counts");
      bbmc::check(ssum == 3 && scount == 1, "a summer constructed while another one is being destroyed is not exact");
      break;
    }
    case 12: {
      // instances share storage in groups (one cache line slot each); start from a process that already has a full group
      bbmc::quiet();
      std::vector<std::unique_ptr<ConcurrentAdder>> many; for (int i = 0; i < 1024; i++) { many.emplace_back(new ConcurrentAdder); if (i % 64 == 0) bbmc::step(); }
      std::unique_ptr<ConcurrentAdder> x(new ConcurrentAdder);   // first instance of the next group
      bbmc::explore_begin();
      run([&] { *x << 5; *many[3] << 7; *many[4] << 1000; });
      *many[3] = std::move(*x);
      bbmc::check(many[3]->value() == 5, "an adder move-assigned from another storage group does not report the counts that were moved into it");
      bbmc::check(many[4]->value() == 1000, "moving an adder disturbed an unrelated adder");
      run([&] { *many[3] << 1; *many[4] << 1; });
      bbmc::check(many[3]->value() == 6 && many[4]->value() == 1001, "counting after a move across storage groups goes to the wrong adder");
      x.reset();
      bbmc::check(many[3]->value() == 6 && many[4]->value() == 1001, "destroying the moved-from adder disturbed live adders");
      { ConcurrentAdder fresh; bbmc::check(fresh.value() == 0, "a new counter recycling the identity of a destroyed one does not start from zero"); }
      bbmc::quiet();
      many.clear();
      break;
    }
    case 11: {
      EnumerableThreadLocal<int> a, b;
      a.local() = 1; b.local() = 2; a.local() += 10;                       // this thread's lookup cache has seen both
      auto sum = [](EnumerableThreadLocal<int>& e) { int t = 0; e.for_each([&](int* i, int* end) { for (; i != end; ++i) t += *i; }); return t; };
      a = std::move(b);                                                    // a now owns the storage that holds 2
      bbmc::check(a.local() == 2, "after a move assignment local() still returns the slot of the storage that was moved away");
      a.local() += 100;
      bbmc::check(sum(a) == 102, "a value written through local() after a move is not what for_each of the same instance reports");
      EnumerableThreadLocal<int> c(std::move(a));
      bbmc::check(c.local() == 102 && sum(c) == 102, "a move-constructed instance does not see the counts of its source");
      a.local() = 7;                                                       // the moved-from instance is a fresh one
      bbmc::check(sum(a) == 7 && sum(c) == 102, "a moved-from instance writes into the storage it gave away");
      break;
    }
    case 9: {
      ConcurrentAdder a; ConcurrentAdder b(std::move(a));
      bbmc::check(b.value() == 0 && a.value() == 0, "moved empty adder not zero");
      run([&] { b << 4; });
      ConcurrentAdder c(std::move(b));
      bbmc::check(c.value() == 4, "move lost the counts");
      bbmc::check(b.value() == 0, "moved-from adder is not a fresh counter");
      run([&] { b << 1; c << 1; });
      bbmc::check(b.value() == 1 && c.value() == 5, "counts after move are wrong");
      break;
    }
  }
}
