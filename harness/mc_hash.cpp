// mc_hash.cpp — C03: ConcurrentFixedSwissTable / ConcurrentTransientHashSet/Map under concurrent insert-if-absent and lookup.
#include <atomic>
#include <memory>
#include <thread>
#include <vector>

#include "babylon/concurrent/transient_hash_table.h"
#include "bbmc.h"

// the harness decides bucket group (base index) and 7-bit tag of every key
static size_t g_hash_of[64];
struct KeyHash { size_t operator()(int k) const noexcept { return g_hash_of[k]; } };
static void set_hash(int key, size_t base, size_t tag) { g_hash_of[key] = (base << 7) | (tag & 0x7f); }

struct Val { int a; int b; Val() : a(0), b(~0) {} Val(int x) : a(x), b(~x) {} };
typedef std::pair<const int, Val> Entry;
typedef babylon::internal::concurrent_transient_hash_table::PairKeyExtractor<int, Val> Extract;
typedef babylon::ConcurrentFixedSwissTable<Entry, KeyHash, Extract> Fixed;
typedef babylon::ConcurrentTransientHashMap<int, Val, KeyHash> Map;
typedef std::pair<const int, std::unique_ptr<int>> UEntry;
typedef babylon::ConcurrentFixedSwissTable<UEntry, KeyHash, babylon::internal::concurrent_transient_hash_table::PairKeyExtractor<int, std::unique_ptr<int>>> UFixed;

static const char* names[] = {
    "fixed16: emplace(a) || emplace(a) || find(a)",
    "fixed16: emplace(a) || emplace(b) with equal group and equal tag || find(a),find(b)",
    "fixed16 with 15 entries: emplace(a) || emplace(b): exactly one fits; the loser keeps its move-only argument",
    "fixed16, group wraps the table end (mirrored control bytes): emplace(a) || find(a) || find(a)",
    "growing map from the default-constructed placeholder: emplace(a) || emplace(b) || find(a)",
    "growing map, 16-bucket head holding 15 keys: emplace(a),emplace(b) || emplace(c),emplace(a)",
    "growing map: operator[](a) || operator[](a) || contains(a)",
    "fixed16: insert(a) || emplace(a) || contains(a) (equal tags, neighbouring key b present)",
    "fixed32/64, the home group of the key is full (second / last probe group): emplace(a) || find(a)",
    "fixed16, group wraps the table end: emplace(a),find(a) || emplace(a),find(a) (each thread looks its own insertion up)",
    "fixed16: key a reaches bucket 0 through a window that wraps the table end, key b through its home window: emplace(a),find(a) || emplace(b),find(b)",
    "growing map, 16-bucket head holding 15 keys: emplace(a),find(a) || emplace(b),find(b): one of them overflows into a new table",
    "growing map with a full 16-bucket head and a second table one short of full: emplace(a),find(a) || emplace(b),find(b): the loser opens a third table",
};
int harness_configs() { return sizeof(names) / sizeof(names[0]); }
const char* harness_config_name(int c) { return names[c]; }
const char* harness_name() { return "mc_hash"; }

struct Res { const void* addr = nullptr; bool inserted = false; bool hit = false; uint64_t b = 0, e = 0; int a = 0, bb = 0; };
template <class T, class R> static void record(Res& r, const R& pr, T& table) {
  r.inserted = pr.second; r.hit = (pr.first != table.end());
  if (r.hit) { r.addr = &*pr.first; r.a = pr.first->second.a; r.bb = pr.first->second.b; }
}
template <class T> static void do_emplace(T& t, int k, Res& r) { r.b = bbmc::step(); auto pr = t.emplace(k, k * 3); record(r, pr, t); r.e = bbmc::step(); }
template <class T> static void do_find(T& t, int k, Res& r) {
  r.b = bbmc::step(); auto it = t.find(k); r.hit = (it != t.end());
  if (r.hit) { r.addr = &*it; r.a = it->second.a; r.bb = it->second.b; bbmc::check(it->first == k, "find returned an element with a different key"); }
  r.e = bbmc::step();
}
static void check_value(const Res& r, int k) { if (r.hit) bbmc::check(r.a == k * 3 && r.bb == ~(k * 3), "an element was visible before it was fully constructed"); }
// all calls on key k: one winner, one address, lookups that start after an insert returned must hit
static void check_key(int k, std::vector<Res*> emplaces, std::vector<Res*> finds, bool must_exist) {
  int winners = 0; const void* addr = nullptr;
  for (auto* r : emplaces) { check_value(*r, k); if (r->inserted) winners++; if (r->hit) { if (!addr) addr = r->addr; bbmc::check(addr == r->addr, "two insertions of one key returned different elements (duplicate key)"); } }
  if (must_exist) bbmc::check(winners == 1, winners == 0 ? "no insertion of the key reported success" : "two insertions of the same key both reported success");
  for (auto* f : finds) {
    check_value(*f, k);
    if (f->hit && addr && f->addr) bbmc::check(f->addr == addr, "lookup returned a different element than the insertion");
    for (auto* r : emplaces) if (r->hit && r->e < f->b) bbmc::check(f->hit, "a lookup that started after an insertion of the key returned missed it");
  }
}
template <class T> static void scope_values(T& t) { bbmc::race_scope(t._values, t.bucket_count() * sizeof(*t._values)); }

void harness_main(int cfg) {
  for (int k = 0; k < 64; k++) set_hash(k, (size_t)k % 16, (size_t)k);
  std::vector<std::thread> ts; Res r[6];
  switch (cfg) {
    case 0: case 7: {
      Fixed t(16); scope_values(t);
      set_hash(1, 3, 0x11); set_hash(2, 3, 0x11);
      if (cfg == 7) t.emplace(2, 6);
      ts.emplace_back([&] { if (cfg == 7) { r[0].b = bbmc::step(); auto pr = t.insert(Entry(1, Val(3))); record(r[0], pr, t); r[0].e = bbmc::step(); } else do_emplace(t, 1, r[0]); });
      ts.emplace_back([&] { do_emplace(t, 1, r[1]); });
      ts.emplace_back([&] { if (cfg == 7) { r[2].b = bbmc::step(); r[2].hit = t.contains(1); r[2].a = 3; r[2].bb = ~3; r[2].e = bbmc::step(); } else do_find(t, 1, r[2]); });
      for (auto& x : ts) x.join();
      check_key(1, {&r[0], &r[1]}, {&r[2]}, true);
      bbmc::check(t.size() == (cfg == 7 ? 2u : 1u) && t.contains(1), "table contents wrong at quiescence");
      break;
    }
    case 1: {
      Fixed t(16); scope_values(t);
      set_hash(1, 5, 0x22); set_hash(2, 5, 0x22);
      ts.emplace_back([&] { do_emplace(t, 1, r[0]); });
      ts.emplace_back([&] { do_emplace(t, 2, r[1]); });
      ts.emplace_back([&] { do_find(t, 1, r[2]); do_find(t, 2, r[3]); });
      for (auto& x : ts) x.join();
      check_key(1, {&r[0]}, {&r[2]}, true); check_key(2, {&r[1]}, {&r[3]}, true);
      bbmc::check(r[0].addr != r[1].addr, "two different keys were given the same slot");
      bbmc::check(t.size() == 2 && t.contains(1) && t.contains(2), "table contents wrong at quiescence");
      break;
    }
    case 2: {
      UFixed t(16);
      for (int k = 10; k < 25; k++) { auto pr = t.emplace(k, std::unique_ptr<int>(new int(k))); bbmc::require(pr.second, "prefill"); }
      std::unique_ptr<int> ua(new int(1)), ub(new int(2)); bool ia = false, ib = false, ha = false, hb = false;
      ts.emplace_back([&] { auto pr = t.emplace(1, std::move(ua)); ia = pr.second; ha = pr.first != t.end(); });
      ts.emplace_back([&] { auto pr = t.emplace(2, std::move(ub)); ib = pr.second; hb = pr.first != t.end(); });
      for (auto& x : ts) x.join();
      bbmc::check(ia != ib, ia ? "both insertions into a table with one free bucket reported success" : "no insertion fitted although one bucket was free");
      bbmc::check(ia == ha && ib == hb, "a failed insertion returned a valid iterator (or a successful one returned end)");
      bbmc::check((ia ? (bool)ub : (bool)ua), "insertion into a full table consumed its (move-only) argument");
      bbmc::check(t.size() == 16, "size wrong after filling the table");
      break;
    }
    case 3: {
      Fixed t(16); scope_values(t);
      // group of key 1 starts at bucket 12 and wraps; buckets 12..15 are taken, so key 1 lands in bucket 0 whose tag is mirrored at 16
      set_hash(1, 12, 0x33);
      for (int k = 40; k < 44; k++) { set_hash(k, 12, 0x40 + (k - 40)); bbmc::require(t.emplace(k, k * 3).second, "prefill"); }
      ts.emplace_back([&] { do_emplace(t, 1, r[0]); });
      ts.emplace_back([&] { do_find(t, 1, r[1]); });
      ts.emplace_back([&] { do_find(t, 1, r[2]); });
      for (auto& x : ts) x.join();
      check_key(1, {&r[0]}, {&r[1], &r[2]}, true);
      do_find(t, 1, r[3]); bbmc::check(r[3].hit, "key inserted into a wrapped group cannot be found afterwards");
      break;
    }
    case 8: {
      size_t buckets = bbmc::choose(2) == 0 ? 32 : 64;
      Fixed t(buckets); scope_values(t);
      // 16 (or 32) keys fill the first (and second) group(s) on the probe path of key 1, which therefore lives in the last group of its path
      int fill = buckets == 32 ? 16 : 32;
      for (int k = 0; k < fill; k++) { set_hash(20 + k, 0, 0x10 + (size_t)k % 0x60); bbmc::require(t.emplace(20 + k, (20 + k) * 3).second, "prefill"); }
      set_hash(1, 0, 0x7e);
      ts.emplace_back([&] { do_emplace(t, 1, r[0]); });
      ts.emplace_back([&] { do_find(t, 1, r[1]); });
      for (auto& x : ts) x.join();
      check_key(1, {&r[0]}, {&r[1]}, true);
      do_find(t, 1, r[2]); bbmc::check(r[2].hit, "a key stored beyond its first probe group cannot be found");
      bbmc::check(t.contains(1) && t.count(1) == 1, "contains/count miss a key stored beyond its first probe group");
      for (int k = 0; k < fill; k++) { bbmc::step(); bbmc::check(t.contains(20 + k), "a prefilled key disappeared"); }   // step(): a read-only loop over one group would look like a poll
      break;
    }
    case 9: {
      Fixed t(16); scope_values(t);
      set_hash(1, 12, 0x33);
      for (int k = 40; k < 44; k++) { set_hash(k, 12, 0x40 + (k - 40)); bbmc::require(t.emplace(k, k * 3).second, "prefill"); }
      ts.emplace_back([&] { do_emplace(t, 1, r[0]); do_find(t, 1, r[2]); });
      ts.emplace_back([&] { do_emplace(t, 1, r[1]); do_find(t, 1, r[3]); });
      for (auto& x : ts) x.join();
      check_key(1, {&r[0], &r[1]}, {&r[2], &r[3]}, true);
      break;
    }
    case 10: {
      Fixed t(16); scope_values(t);
      set_hash(1, 12, 0x33); set_hash(2, 0, 0x35);
      for (int k = 40; k < 44; k++) { set_hash(k, 12, 0x40 + (k - 40)); bbmc::require(t.emplace(k, k * 3).second, "prefill"); }   // buckets 12..15
      ts.emplace_back([&] { do_emplace(t, 1, r[0]); do_find(t, 1, r[2]); });
      ts.emplace_back([&] { do_emplace(t, 2, r[1]); do_find(t, 2, r[3]); });
      for (auto& x : ts) x.join();
      check_key(1, {&r[0]}, {&r[2]}, true); check_key(2, {&r[1]}, {&r[3]}, true);
      bbmc::check(r[0].addr != r[1].addr, "two different keys were given the same slot");
      bbmc::check(t.size() == 6 && t.contains(1) && t.contains(2), "table contents wrong at quiescence");
      size_t n = 0; for (auto it = t.begin(); it != t.end(); ++it) n++;
      bbmc::check(n == 6, "iteration and size disagree at quiescence");
      break;
    }
    case 11: {
      Map m(16);
      for (int k = 10; k < 25; k++) bbmc::require(m.emplace(k, k * 3).second, "prefill");
      ts.emplace_back([&] { do_emplace(m, 1, r[0]); do_find(m, 1, r[2]); });
      ts.emplace_back([&] { do_emplace(m, 2, r[1]); do_find(m, 2, r[3]); });
      for (auto& x : ts) x.join();
      check_key(1, {&r[0]}, {&r[2]}, true); check_key(2, {&r[1]}, {&r[3]}, true);
      bbmc::check(m.size() == 17 && m.contains(1) && m.contains(2), "growth dropped or duplicated a key");
      break;
    }
    case 12: {
      Map m(16);
      for (int k = 0; k < 47; k++) { bbmc::step(); bbmc::require(m.emplace(k, k * 3).second, "prefill"); }   // 16 in the head, 31 in the 32-bucket successor
      ts.emplace_back([&] { do_emplace(m, 50, r[0]); do_find(m, 50, r[2]); });
      ts.emplace_back([&] { do_emplace(m, 51, r[1]); do_find(m, 51, r[3]); });
      for (auto& x : ts) x.join();
      check_key(50, {&r[0]}, {&r[2]}, true); check_key(51, {&r[1]}, {&r[3]}, true);
      bbmc::check(m.size() == 49 && m.contains(50) && m.contains(51), "growth dropped or duplicated a key");
      for (int k = 0; k < 47; k++) { bbmc::step(); bbmc::check(m.contains(k), "a key present before the growth disappeared"); }
      break;
    }
    case 4: case 5: {
      Map m = cfg == 4 ? Map() : Map(16);
      if (cfg == 5) for (int k = 10; k < 25; k++) bbmc::require(m.emplace(k, k * 3).second, "prefill");
      if (cfg == 4) {
        ts.emplace_back([&] { do_emplace(m, 1, r[0]); });
        ts.emplace_back([&] { do_emplace(m, 2, r[1]); });
        ts.emplace_back([&] { do_find(m, 1, r[2]); });
        for (auto& x : ts) x.join();
        check_key(1, {&r[0]}, {&r[2]}, true); check_key(2, {&r[1]}, {}, true);
        bbmc::check(m.size() == 2, "growth dropped or duplicated a key");
      } else {
        ts.emplace_back([&] { do_emplace(m, 1, r[0]); do_emplace(m, 2, r[1]); });
        ts.emplace_back([&] { do_emplace(m, 3, r[2]); do_emplace(m, 1, r[3]); });
        for (auto& x : ts) x.join();
        check_key(1, {&r[0], &r[3]}, {}, true); check_key(2, {&r[1]}, {}, true); check_key(3, {&r[2]}, {}, true);
        bbmc::check(m.size() == 18, "growth dropped or duplicated a key");
        for (int k = 10; k < 25; k++) bbmc::check(m.contains(k), "a key present before the growth disappeared");
      }
      bbmc::check(m.contains(1) && m.contains(2), "an inserted key is missing at quiescence");
      size_t n = 0; for (auto it = m.begin(); it != m.end(); ++it) n++;
      bbmc::check(n == m.size(), "iteration and size disagree at quiescence");
      break;
    }
    case 6: {
      Map m(16);
      Val* p1 = nullptr; Val* p2 = nullptr; bool c = false;
      ts.emplace_back([&] { p1 = &m[1]; });
      ts.emplace_back([&] { p2 = &m[1]; });
      ts.emplace_back([&] { c = m.contains(1); });
      for (auto& x : ts) x.join();
      bbmc::check(p1 == p2, "operator[] on one key returned two different elements");
      bbmc::check(m.size() == 1 && p1->a == 0 && p1->b == ~0, "operator[] did not value-initialise exactly one element");
      (void)c;
      break;
    }
  }
}
