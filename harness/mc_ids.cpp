// mc_ids.cpp — C14: IdAllocator, ThreadId, DepositBox under the bbmc scheduler.
#include <atomic>
#include <thread>
#include <vector>

#include "babylon/concurrent/deposit_box.h"
#include "babylon/concurrent/id_allocator.h"
#include "bbmc.h"

using babylon::DepositBox;
using babylon::IdAllocator;
using babylon::ThreadId;
using babylon::VersionedValue;

static const char* names[] = {
    "ids32: 3 threads allocate+deallocate (empty free list)",
    "ids32: ABA shape: pop || pop,pop,push of the same value",
    "ids32: free list of 1: alloc || alloc || dealloc(held)",
    "ids16: ABA shape with 16-bit ids",
    "ids32: free list of 2: alloc,alloc || alloc,dealloc || dealloc(held)",
    "thread ids: 2 generations of threads, ids unique while live and recycled afterwards",
    "thread ids: births and deaths overlap (3 threads, third born while first dies)",
    "deposit: three takers of one id",
    "deposit: stale id against a recycled slot",
    "deposit: take_released / finish_released split across threads while a new item is emplaced",
    "deposit: two items, takers crossed",
    "ids32: dealloc(a) || dealloc(b),alloc,dealloc,alloc, then sequential recycling: no (value, version) pair is ever issued twice",
};
int harness_configs() { return sizeof(names) / sizeof(names[0]); }
const char* harness_config_name(int c) { return names[c]; }
const char* harness_name() { return "mc_ids"; }

// harness-side ownership map (background: ordered, but not preemption points)
static std::atomic<int> owned[64];
// every (value, version) pair an allocator hands out must be new: versioned ids are what makes a stale id recognisable
static std::atomic<uint64_t> issued[64]; static std::atomic<int> n_issued;
static void own_init() { for (auto& o : owned) o.store(0, std::memory_order_relaxed); bbmc::background(owned, sizeof owned); n_issued.store(0, std::memory_order_relaxed); bbmc::background(issued, sizeof issued); bbmc::background(&n_issued, sizeof n_issued); }
static void note_issued(uint64_t pair) {
  int n = n_issued.load(std::memory_order_relaxed);
  for (int i = 0; i < n; i++) bbmc::check(issued[i].load(std::memory_order_relaxed) != pair, "allocate handed out a (value, version) pair it had handed out before: a stale id would match again");
  int k = n_issued.fetch_add(1, std::memory_order_relaxed); bbmc::require(k < 64, "issued table"); issued[k].store(pair, std::memory_order_relaxed);
}
template <class T>
static VersionedValue<T> take_id(IdAllocator<T>& a) {
  auto id = a.allocate();
  bbmc::check(id.value < 64, "allocator minted an absurd value");
  bbmc::check(owned[id.value].fetch_add(1, std::memory_order_relaxed) == 0, "an id value is held by two owners at the same time");
  note_issued(((uint64_t)id.version << 32) | (uint64_t)id.value);
  return id;
}
template <class T>
static void give_id(IdAllocator<T>& a, VersionedValue<T> id) {
  owned[id.value].fetch_sub(1, std::memory_order_relaxed);
  a.deallocate(id);
}
template <class T>
static void quiescent_checks(IdAllocator<T>& a, std::vector<T> live) {
  // for_each reports exactly the live values
  std::vector<int> seen(64, 0);
  a.for_each([&](T b, T e) { for (T v = b; v < e; v++) if (v < 64) seen[v]++; });
  for (int v = 0; v < 64; v++) { bool is_live = false; for (auto l : live) if (l == v) is_live = true; bbmc::check(seen[v] == (is_live ? 1 : 0), "for_each at quiescence does not report exactly the live values"); }
  // an allocation made while freed values exist reuses one of them
  T end0 = a.end();
  if (live.size() < (size_t)end0) {
    auto id = a.allocate();
    bool was_live = false; for (auto l : live) if (l == id.value) was_live = true;
    bbmc::check(!was_live && id.value < end0 && a.end() == end0, "an allocation with freed values available minted a new value or returned a live one");
    a.deallocate(id);
  }
}

template <class T>
static void ids_config(int shape) {
  own_init();
  IdAllocator<T> a;
  std::vector<T> live;
  if (shape == 0) {
    auto body = [&] { auto x = take_id(a); give_id(a, x); auto y = take_id(a); give_id(a, y); };
    std::thread t1(body), t2(body), t3(body); t1.join(); t2.join(); t3.join();
  } else if (shape == 1) {
    auto x = a.allocate(), y = a.allocate(), z = a.allocate(); a.deallocate(z); a.deallocate(y); a.deallocate(x);  // free list: x -> y -> z
    VersionedValue<T> h1, h1b, h2, h3;
    std::thread t1([&] { h1 = take_id(a); h1b = take_id(a); });
    std::thread t2([&] { h2 = take_id(a); h3 = take_id(a); give_id(a, h2); });
    t1.join(); t2.join();
    live.push_back(h1.value); live.push_back(h1b.value); live.push_back(h3.value);
  } else if (shape == 2) {
    auto x = a.allocate(), held = take_id(a); a.deallocate(x);
    VersionedValue<T> h1, h2;
    std::thread t1([&] { h1 = take_id(a); });
    std::thread t2([&] { h2 = take_id(a); });
    std::thread t3([&] { give_id(a, held); });
    t1.join(); t2.join(); t3.join();
    live.push_back(h1.value); live.push_back(h2.value);
  } else if (shape == 4) {
    auto ha = take_id(a), hb = take_id(a);
    VersionedValue<T> y;
    std::thread t1([&] { give_id(a, ha); });
    std::thread t2([&] { give_id(a, hb); auto x = take_id(a); give_id(a, x); y = take_id(a); });
    t1.join(); t2.join();
    // recycle sequentially a few times: every allocation must carry a pair never seen before
    auto z = take_id(a); give_id(a, y); auto w = take_id(a); give_id(a, z); auto u = take_id(a); give_id(a, w); auto v = take_id(a);
    live.push_back(u.value); live.push_back(v.value);
  } else {
    auto x = a.allocate(), y = a.allocate(), held = take_id(a); a.deallocate(y); a.deallocate(x);
    VersionedValue<T> h1, h2, h3;
    std::thread t1([&] { h1 = take_id(a); h2 = take_id(a); });
    std::thread t2([&] { h3 = take_id(a); give_id(a, h3); });
    std::thread t3([&] { give_id(a, held); });
    t1.join(); t2.join(); t3.join();
    live.push_back(h1.value); live.push_back(h2.value);
  }
  quiescent_checks(a, live);
}

struct TidTag {};
static std::atomic<int> tid_owned[64];
static void thread_ids(bool overlap) {
  for (auto& o : tid_owned) o.store(0, std::memory_order_relaxed);
  bbmc::background(tid_owned, sizeof tid_owned);
  uint16_t seen_ids[8]; int n = 0; std::atomic<int> idx{0}; bbmc::background(&idx, sizeof idx);
  auto body = [&] {
    auto id = ThreadId::current_thread_id<TidTag>();
    auto again = ThreadId::current_thread_id<TidTag>();
    bbmc::check(id.value == again.value, "thread id is not stable within a thread");
    bbmc::check(id.value < 64 && tid_owned[id.value].fetch_add(1, std::memory_order_relaxed) == 0, "two live threads hold the same thread id");
    seen_ids[idx.fetch_add(1, std::memory_order_relaxed)] = id.value;
    tid_owned[id.value].fetch_sub(1, std::memory_order_relaxed);  // released just before the thread (and its thread_local) dies
  };
  if (!overlap) {
    std::thread a(body), b(body); a.join(); b.join();
    std::thread c(body), d(body); c.join(); d.join();
    n = 4;
    bbmc::check(ThreadId::end<TidTag>() <= 2, "thread ids of dead threads were not recycled");
  } else {
    std::thread a(body), b(body);
    a.join();
    std::thread c(body);
    b.join(); c.join();
    n = 3;
    bbmc::check(ThreadId::end<TidTag>() <= 2, "thread ids of dead threads were not recycled");
  }
  // quiescence: no thread of this family is alive, so for_each reports nothing
  int live = 0; ThreadId::for_each<TidTag>([&](uint16_t b, uint16_t e) { live += e - b; });
  bbmc::check(live == 0, "for_each reports ids of threads that have exited");
  (void)n; (void)seen_ids;
}

static void deposit(int shape) {
  auto& box = DepositBox<int>::instance();
  if (shape == 0) {
    auto id = box.emplace(41);
    int got[3] = {0, 0, 0};
    auto taker = [&](int i) { auto acc = box.take(id); if (acc) { got[i] = *acc; } };
    std::thread t1(taker, 0), t2(taker, 1), t3(taker, 2); t1.join(); t2.join(); t3.join();
    int winners = (got[0] != 0) + (got[1] != 0) + (got[2] != 0);
    bbmc::check(winners == 1, winners == 0 ? "nobody obtained the deposited item" : "more than one taker obtained the item");
    bbmc::check(got[0] + got[1] + got[2] == 41, "winner saw a wrong item");
  } else if (shape == 1) {
    auto id1 = box.emplace(11);
    { auto acc = box.take(id1); bbmc::require((bool)acc && *acc == 11, "setup take"); }  // released: slot goes back
    VersionedValue<uint32_t> id2; id2.version_and_value = UINT64_MAX; int stale_hit = 0, fresh = 0; std::atomic<int> have_id2{0};
    std::thread t1([&] { auto acc = box.take(id1); if (acc) stale_hit = 1; });
    std::thread t2([&] { id2 = box.emplace(22); have_id2.store(1, std::memory_order_release); });
    std::thread t3([&] { while (!have_id2.load(std::memory_order_acquire)) sched_yield(); auto acc = box.take(id2); if (acc) fresh = *acc; });
    t1.join(); t2.join(); t3.join();
    bbmc::check(!stale_hit, "an id whose item was already taken matched again after the slot was reused");
    bbmc::check(fresh == 22, "the owner of the new id did not obtain the new item");
    bbmc::check(id2.value == id1.value, "harness expectation: slot recycled");
  } else if (shape == 2) {
    auto id = box.emplace(5);
    int* p = nullptr; std::atomic<int> stage{0}; int other = 0;
    std::thread t1([&] { p = box.take_released(id); bbmc::check(p && *p == 5, "take_released lost the item"); stage.store(1, std::memory_order_release); });
    std::thread t2([&] { while (stage.load(std::memory_order_acquire) != 1) sched_yield(); box.finish_released(id); });
    std::thread t3([&] { auto id3 = box.emplace(6); auto acc = box.take(id3); bbmc::check((bool)acc && *acc == 6, "concurrent emplace/take pair failed"); other = 1; bbmc::check(!box.take(id3), "second take of the same id succeeded"); });
    t1.join(); t2.join(); t3.join();
    bbmc::check(!box.take(id), "released id matched again");
    (void)other;
  } else {
    auto ida = box.emplace(100), idb = box.emplace(200);
    int sum = 0; std::atomic<int> s{0}; bbmc::background(&s, sizeof s);
    auto taker = [&](VersionedValue<uint32_t> x, VersionedValue<uint32_t> y) { auto a = box.take(x); if (a) s.fetch_add(*a, std::memory_order_relaxed); auto b = box.take(y); if (b) s.fetch_add(*b, std::memory_order_relaxed); };
    std::thread t1(taker, ida, idb), t2(taker, idb, ida); t1.join(); t2.join();
    sum = s.load();
    bbmc::check(sum == 300, "each of two items must be obtained exactly once");
  }
}

void harness_main(int cfg) {
  switch (cfg) {
    case 0: ids_config<uint32_t>(0); break;
    case 1: ids_config<uint32_t>(1); break;
    case 2: ids_config<uint32_t>(2); break;
    case 3: ids_config<uint16_t>(1); break;
    case 4: ids_config<uint32_t>(3); break;
    case 5: thread_ids(false); break;
    case 6: thread_ids(true); break;
    case 7: deposit(0); break;
    case 8: deposit(1); break;
    case 9: deposit(2); break;
    case 10: deposit(3); break;
    case 11: ids_config<uint32_t>(4); break;
  }
}
