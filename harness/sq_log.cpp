// sq_log.cpp — C20 (sequential half): LogStreamBuffer / LogEntry layout for all write-size sequences around the
// inline-page and page-table capacities, for several page sizes; plus the appender's discard path.
#include <set>
#include <string>
#include <vector>

#include "babylon/logging/async_file_appender.h"
#include "babylon/logging/log_entry.h"
#include "seqx.h"

using babylon::LogEntry;
using babylon::LogStreamBuffer;

struct RecAllocator : public babylon::PageAllocator {
  size_t psize; std::set<void*> out; std::vector<void*> all; std::string error;
  explicit RecAllocator(size_t p) : psize(p) {}
  ~RecAllocator() noexcept override { for (void* p : all) ::operator delete(p, std::align_val_t(64)); }
  size_t page_size() const noexcept override { return psize; }
  using PageAllocator::allocate; using PageAllocator::deallocate;
  void allocate(void** pages, size_t num) noexcept override { for (size_t i = 0; i < num; i++) { void* p = ::operator new(psize, std::align_val_t(64)); memset(p, 0xEE, psize); all.push_back(p); out.insert(p); pages[i] = p; } }
  void deallocate(void** pages, size_t num) noexcept override { for (size_t i = 0; i < num; i++) { if (!out.erase(pages[i]) && error.empty()) error = "a page was returned to the page allocator twice (or a foreign pointer was returned)"; } }
};

enum { N1, NPM1, NP, NPP1, N2P, N5P, NTABLE, C1, CP, W_NUM };
template <int PAGE>
struct LogSys {
  static constexpr size_t TABLE = (PAGE - sizeof(LogEntry::PageTable)) / sizeof(char*);   // pages per page table
  RecAllocator alloc{PAGE}; LogStreamBuffer buf; std::string expect; std::string canon_s; std::ostream os{&buf};
  static std::string name() { return "LogStreamBuffer page=" + std::to_string(PAGE); }
  static int num_ops() { return W_NUM; }
  static size_t chunk(int op) { switch (op) { case N1: case C1: return 1; case NPM1: return PAGE - 1; case NP: case CP: return PAGE; case NPP1: return PAGE + 1; case N2P: return 2 * PAGE; case N5P: return 5 * PAGE; default: return TABLE * PAGE; } }
  static std::string op_name(int op) { static const char* n[] = {"sputn(1)", "sputn(p-1)", "sputn(p)", "sputn(p+1)", "sputn(2p)", "sputn(5p)", "sputn(table*p)", "sputc x1", "sputc x p"}; return n[op]; }
  LogSys() { buf.set_page_allocator(alloc); buf.begin(); canon_s = "len=0"; }
  bool enabled(int op) { return expect.size() + chunk(op) <= (LogEntry::INLINE_PAGE_CAPACITY + 2 * TABLE + 2) * PAGE; }
  std::string apply(int op) {
    size_t n = chunk(op); std::string data;
    for (size_t i = 0; i < n; i++) data.push_back((char)((expect.size() + i) * 7 + 3));
    if (op == C1 || op == CP) { for (char c : data) buf.sputc(c); } else buf.sputn(data.data(), (std::streamsize)data.size());
    expect += data;
    canon_s = "len=" + std::to_string(expect.size()) + " pages=" + std::to_string(alloc.out.size());
    return "";
  }
  // finish the entry, rebuild the scatter list from the size alone, then let the appender's discard path return the pages
  std::string check() {
    LogEntry entry = buf.end();
    if (entry.size != expect.size()) return "entry.size = " + std::to_string(entry.size) + " but " + std::to_string(expect.size()) + " bytes were streamed";
    std::vector<struct ::iovec> iov; entry.append_to_iovec(PAGE, iov);
    std::string got; std::set<void*> bases;
    for (auto& v : iov) {
      if (v.iov_len > (size_t)PAGE) return "an iovec segment is longer than a page";
      if (!bases.insert(v.iov_base).second) return "a page appears twice in the scatter list";
      if (!alloc.out.count(v.iov_base)) return "the scatter list names memory that is not a page handed out for this entry";
      got.append((const char*)v.iov_base, v.iov_len);
    }
    if (got != expect) return "the scatter list does not describe the byte sequence that was streamed (length " + std::to_string(got.size()) + " vs " + std::to_string(expect.size()) + ")";
    if (bases.size() != alloc.out.size()) return "a page backing the entry (data page or page-table page) is missing from the scatter list: " + std::to_string(bases.size()) + " listed, " + std::to_string(alloc.out.size()) + " handed out";
    babylon::AsyncFileAppender app; app.set_page_allocator(alloc);
    app.discard(entry);
    if (!alloc.error.empty()) return alloc.error;
    if (!alloc.out.empty()) return "after discard " + std::to_string(alloc.out.size()) + " page(s) were not returned to the page allocator";
    return "";
  }
  std::string canon() { return canon_s; }
};

static void register_systems() {
  seqx::add<LogSys<64>>();
  seqx::add<LogSys<128>>();
  seqx::add<LogSys<256>>();
}
SEQX_MAIN("sq_log")
