// seqx.h — bounded exhaustive exploration of operation sequences of a sequential API against a
// reference model (DESIGN.md section 3). A state IS the operation history reaching it: to expand a state a
// fresh implementation object is built and the history replayed (live objects are not copyable); states are
// deduplicated by a canonical string; the canonical form is asserted equal on replay.
//
// A system S provides:
//   static std::string name();
//   static int num_ops();  static std::string op_name(int op);
//   S();                              fresh implementation + reference model
//   bool enabled(int op);             is the operation meaningful in the current state
//   std::string apply(int op);        run op on both, compare; returns "" or a violation message
//   std::string check();              invariants + full comparison; "" or violation message
//   std::string canon();              every field the implementation branches on + the observable contents
#pragma once
#include <poll.h>
#include <signal.h>
#include <sys/mman.h>
#include <sys/wait.h>
#include <unistd.h>
#include <atomic>
#include <chrono>
#include <cstdio>
#include <cstring>
#include <functional>
#include <mutex>
#include <string>
#include <thread>
#include <unordered_set>
#include <vector>

namespace seqx {

typedef std::vector<uint8_t> History;

struct Violation { std::string system, message; History hist; std::vector<std::string> ops; };
struct SysResult {
  std::string system; uint64_t states = 0, transitions = 0, executions = 0; int max_depth = 0, depth_completed = -1; bool complete = false;
  std::vector<Violation> violations; std::vector<std::string> errors; std::vector<std::string> samples; double wall_s = 0;
};

struct Options { int depth = 4; double budget_s = 100; int jobs = 16; int max_violations = 32; };

inline double now_s() { return std::chrono::duration<double>(std::chrono::steady_clock::now().time_since_epoch()).count(); }

// shared page where each worker thread publishes what it is executing, so a crash (sanitizer abort) can be attributed
struct InFlight { volatile int len; volatile uint8_t ops[64]; };
static InFlight* g_inflight = nullptr;
static thread_local int t_slot = 0;
inline void publish(const History& h, int op) {
  if (!g_inflight) return;
  InFlight& f = g_inflight[t_slot];
  int n = 0; for (; n < (int)h.size() && n < 62; n++) f.ops[n] = h[n];
  if (op >= 0) f.ops[n++] = (uint8_t)op;
  f.len = n;
}

template <class S>
std::string describe(const History& h) {
  std::string s; for (size_t i = 0; i < h.size(); i++) { if (i) s += " ; "; s += S::op_name(h[i]); } return s;
}

// replay a history on a fresh object; returns violation message or ""
template <class S>
std::string replay(S& s, const History& h) {
  for (size_t i = 0; i < h.size(); i++) {
    if (!s.enabled(h[i])) return "replay: operation " + S::op_name(h[i]) + " not enabled (nondeterministic harness)";
    std::string e = s.apply(h[i]); if (!e.empty()) return e;
  }
  return "";
}

template <class S>
SysResult bfs(const Options& opt) {
  SysResult res; res.system = S::name();
  double t0 = now_s(), deadline = t0 + opt.budget_s;
  std::unordered_set<std::string> seen; std::mutex mu;
  struct Node { History h; std::string canon; };
  std::vector<Node> frontier;
  {
    S s; std::string e = s.check();
    if (!e.empty()) { res.violations.push_back({S::name(), "initial state: " + e, {}, {}}); return res; }
    std::string c = s.canon(); seen.insert(c); frontier.push_back({{}, c}); res.states = 1; res.executions = 1;
  }
  std::atomic<bool> stop{false}; std::atomic<uint64_t> transitions{0}, executions{0};
  bool exhausted = false;
  for (int depth = 0; depth < opt.depth && !stop; depth++) {
    std::vector<Node> next; std::atomic<size_t> cursor{0};
    auto work = [&](int slot) {
      t_slot = slot;
      for (;;) {
        size_t i = cursor.fetch_add(1); if (i >= frontier.size() || stop) break;
        if (now_s() > deadline) { stop = true; break; }
        const Node& n = frontier[i];
        for (int op = 0; op < S::num_ops(); op++) {
          publish(n.h, op);
          S s; executions++;
          std::string e = replay<S>(s, n.h);
          if (e.empty() && s.canon() != n.canon) e = "replay reached a different canonical state (uninitialised field or unreset global?)";
          if (!e.empty()) { std::lock_guard<std::mutex> g(mu); res.errors.push_back(S::name() + ": " + e + " after [" + describe<S>(n.h) + "]"); stop = true; break; }
          if (!s.enabled(op)) continue;
          transitions++;
          e = s.apply(op);
          if (e.empty()) e = s.check();
          History h2 = n.h; h2.push_back((uint8_t)op);
          if (!e.empty()) {
            std::lock_guard<std::mutex> g(mu);
            // one representative per distinct message
            bool dup = false; for (auto& v : res.violations) if (v.message == e) dup = true;
            if (!dup) { Violation v; v.system = S::name(); v.message = e; v.hist = h2; for (auto o : h2) v.ops.push_back(S::op_name(o)); res.violations.push_back(v); }
            if ((int)res.violations.size() >= opt.max_violations) stop = true;
            continue;  // do not explore beyond a violating state
          }
          std::string c = s.canon();
          std::lock_guard<std::mutex> g(mu);
          if (seen.insert(c).second) { next.push_back({h2, c}); if (res.samples.size() < 3 && h2.size() >= 2) res.samples.push_back(describe<S>(h2) + "  =>  " + c.substr(0, 160)); }
        }
      }
    };
    std::vector<std::thread> ts; int nj = opt.jobs; if ((size_t)nj > frontier.size()) nj = (int)frontier.size(); if (nj < 1) nj = 1;
    for (int j = 0; j < nj; j++) ts.emplace_back(work, j);
    for (auto& t : ts) t.join();
    res.max_depth = depth + 1;
    if (!stop) res.depth_completed = depth + 1;
    frontier.swap(next);
    if (frontier.empty()) { exhausted = true; break; }
  }
  res.states = seen.size(); res.transitions = transitions; res.executions += executions;
  res.complete = !stop && res.errors.empty();
  (void)exhausted;
  res.wall_s = now_s() - t0;
  return res;
}

// ---- registry + main ---------------------------------------------------------------------------------------
struct Entry { std::string name; std::function<SysResult(const Options&)> run; std::function<int(const std::vector<std::string>&)> replay; };
inline std::vector<Entry>& registry() { static std::vector<Entry> r; return r; }

template <class S>
int replay_named(const std::vector<std::string>& ops) {
  S s; printf("system %s\n", S::name().c_str());
  for (auto& o : ops) {
    int op = -1; for (int i = 0; i < S::num_ops(); i++) if (S::op_name(i) == o) op = i;
    if (op < 0 && o.size() > 1 && o[0] == '#') op = atoi(o.c_str() + 1);
    if (op < 0) { printf("unknown op %s\n", o.c_str()); return 2; }
    if (!s.enabled(op)) { printf("op %s not enabled\n", o.c_str()); return 2; }
    std::string e = s.apply(op); if (e.empty()) e = s.check();
    printf("  %-28s -> %s\n", o.c_str(), e.empty() ? s.canon().substr(0, 200).c_str() : ("VIOLATION: " + e).c_str());
    if (!e.empty()) return 1;
  }
  return 0;
}
template <class S>
void add(std::function<int(int)> depth_map = nullptr) { registry().push_back({S::name(), [depth_map](const Options& o) { Options o2 = o; if (depth_map) o2.depth = depth_map(o.depth); return bfs<S>(o2); }, [](const std::vector<std::string>& ops) { return replay_named<S>(ops); }}); }

inline std::string jesc(const std::string& s) { std::string o; for (char c : s) { if (c == '"' || c == '\\') { o += '\\'; o += c; } else if ((unsigned char)c < 32) { char b[8]; snprintf(b, sizeof b, "\\u%04x", c); o += b; } else o += c; } return o; }

inline int main_impl(int argc, char** argv, const char* harness) {
  Options opt; std::string out, rdir = ".", rp, only;
  for (int i = 1; i < argc; i++) {
    std::string a = argv[i]; auto val = [&]() { return i + 1 < argc ? std::string(argv[++i]) : std::string(); };
    if (a == "--depth") opt.depth = atoi(val().c_str()); else if (a == "--budget-s") opt.budget_s = atof(val().c_str()); else if (a == "--jobs") opt.jobs = atoi(val().c_str());
    else if (a == "--out") out = val(); else if (a == "--replay-dir") rdir = val(); else if (a == "--replay") rp = val(); else if (a == "--system") only = val();
    else if (a == "--list") { for (auto& e : registry()) printf("%s\n", e.name.c_str()); return 0; }
  }
  if (!rp.empty()) {
    FILE* f = fopen(rp.c_str(), "r"); if (!f) { printf("cannot open %s\n", rp.c_str()); return 2; }
    std::string txt; char buf[4096]; size_t n; while ((n = fread(buf, 1, sizeof buf, f)) > 0) txt.append(buf, n); fclose(f);
    auto field = [&](const char* k) { std::string key = std::string("\"") + k + "\": \""; size_t p = txt.find(key); if (p == std::string::npos) return std::string(); p += key.size(); size_t e = p; while (e < txt.size() && !(txt[e] == '"' && txt[e - 1] != '\\')) e++; return txt.substr(p, e - p); };
    std::string sys = field("system"), opsj = field("ops_joined");
    std::vector<std::string> ops; size_t p = 0; while (p < opsj.size()) { size_t e = opsj.find(" ; ", p); if (e == std::string::npos) e = opsj.size(); ops.push_back(opsj.substr(p, e - p)); p = e + 3; }
    for (auto& e : registry()) if (e.name == sys) { int r1 = e.replay(ops); int r2 = e.replay(ops); if (r1 != r2) { printf("REPLAY DIVERGED\n"); return 2; } printf("replayed twice with identical result\n"); return r1; }
    printf("unknown system %s\n", sys.c_str()); return 2;
  }
  double t0 = now_s(); double deadline = t0 + opt.budget_s;
  std::vector<SysResult> rs; bool all_complete = true; uint64_t states = 0, transitions = 0, executions = 0;
  // a sanitizer abort kills the process: run every system in a forked child and attribute a crash to what was in flight
  size_t nsys = 0, isys = 0; for (auto& e : registry()) if (only.empty() || e.name == only) nsys++;
  for (auto& e : registry()) {
    if (!only.empty() && e.name != only) continue;
    double left = deadline - now_s(); if (left < 1) left = 1;
    // the time budget is shared fairly: every system gets an equal share of what is left (breadth first, so every depth
    // below the one in progress is complete when the share runs out)
    Options o = opt; o.budget_s = left / (double)(nsys - isys); isys++;
    int pfd[2]; if (pipe(pfd)) return 2;
    g_inflight = (InFlight*)mmap(nullptr, sizeof(InFlight) * 64, PROT_READ | PROT_WRITE, MAP_SHARED | MAP_ANONYMOUS, -1, 0);
    memset((void*)g_inflight, 0, sizeof(InFlight) * 64);
    pid_t pid = fork();
    if (pid == 0) {
      close(pfd[0]);
      SysResult r = e.run(o);
      std::string js = "{\"system\": \"" + jesc(r.system) + "\", \"states\": " + std::to_string(r.states) + ", \"transitions\": " + std::to_string(r.transitions) + ", \"executions\": " + std::to_string(r.executions) +
                       ", \"max_depth\": " + std::to_string(r.max_depth) + ", \"depth_completed\": " + std::to_string(r.depth_completed) + ", \"complete\": " + (r.complete ? "true" : "false") + ", \"wall_s\": " + std::to_string(r.wall_s) + ", \"violations\": [";
      for (size_t i = 0; i < r.violations.size(); i++) { auto& v = r.violations[i]; std::string oj; for (size_t k = 0; k < v.ops.size(); k++) { if (k) oj += " ; "; oj += v.ops[k]; }
        js += std::string(i ? ", " : "") + "{\"message\": \"" + jesc(v.message) + "\", \"ops_joined\": \"" + jesc(oj) + "\"}"; }
      js += "], \"errors\": ["; for (size_t i = 0; i < r.errors.size(); i++) js += std::string(i ? ", " : "") + "\"" + jesc(r.errors[i]) + "\"";
      js += "], \"samples\": ["; for (size_t i = 0; i < r.samples.size(); i++) js += std::string(i ? ", " : "") + "\"" + jesc(r.samples[i]) + "\"";
      js += "]}";
      size_t off = 0; while (off < js.size()) { ssize_t w = write(pfd[1], js.data() + off, js.size() - off); if (w <= 0) break; off += w; }
      _exit(0);
    }
    close(pfd[1]);
    // an operation that never returns (a loop over a corrupted list, a lost wake-up) must not hang the driver: the child gets
    // its time share plus a grace period, then it is killed and whatever it was executing is reported
    std::string js; char buf[65536]; bool hung = false; double kill_at = now_s() + o.budget_s + 30;
    for (;;) {
      struct pollfd pf = {pfd[0], POLLIN, 0}; int pr = poll(&pf, 1, 500);
      if (pr > 0) { ssize_t n = read(pfd[0], buf, sizeof buf); if (n > 0) js.append(buf, n); else break; }
      else if (now_s() > kill_at) { hung = true; kill(pid, SIGKILL); break; }
    }
    close(pfd[0]);
    int st = 0; waitpid(pid, &st, 0);
    SysResult r; r.system = e.name;
    if (hung) js.clear();
    if (js.empty()) {
      // crashed: the in-flight histories are the suspects; report each (the replay tool pins it down)
      r.complete = false;
      for (int s = 0; s < 64; s++) if (g_inflight[s].len > 0) {
        Violation v; v.system = e.name; v.message = hung ? "an operation of this history did not return (hang: the system was killed after its time share plus 30 s)" : "crash or sanitizer abort (exit status " + std::to_string(st) + ") while executing this history";
        for (int k = 0; k < g_inflight[s].len; k++) v.hist.push_back((uint8_t)g_inflight[s].ops[k]);
        r.violations.push_back(v);
      }
      if (r.violations.empty()) r.errors.push_back("system crashed before its first transition");
    }
    munmap((void*)g_inflight, sizeof(InFlight) * 64); g_inflight = nullptr;
    rs.push_back(r);
    // keep raw json of the child for merging
    if (!js.empty()) rs.back().samples.push_back(js);
  }
  // merge: children printed JSON objects; the parent re-emits them inside the summary
  FILE* fo = out.empty() ? stdout : fopen(out.c_str(), "w"); if (!fo) return 2;
  std::string detail = "["; int nviol = 0, nerr = 0, vi = 0; std::string viol_js = "[", err_js = "[", samp_js = "[";
  bool firstd = true, firstv = true, firste = true, firsts = true;
  for (auto& r : rs) {
    std::string js = r.samples.empty() ? "" : r.samples.back();
    if (!js.empty()) {
      detail += std::string(firstd ? "" : ", ") + js; firstd = false;
      auto num = [&](const char* k) { std::string key = std::string("\"") + k + "\": "; size_t p = js.find(key); return p == std::string::npos ? 0ULL : strtoull(js.c_str() + p + key.size(), nullptr, 10); };
      states += num("states"); transitions += num("transitions"); executions += num("executions");
      if (js.find("\"complete\": true") == std::string::npos) all_complete = false;
      // violations of this child
      size_t p = js.find("\"violations\": ["); size_t e = js.find("], \"errors\"");
      std::string vs = js.substr(p + 15, e - (p + 15));
      size_t q = 0;
      while ((q = vs.find("{\"message\": \"", q)) != std::string::npos) {
        size_t me = vs.find("\", \"ops_joined\": \"", q); size_t oe = vs.find("\"}", me + 18);
        std::string msg = vs.substr(q + 13, me - (q + 13)), ops = vs.substr(me + 18, oe - (me + 18));
        char path[512]; snprintf(path, sizeof path, "%s/%s-%s-%d.json", rdir.c_str(), harness, r.system.c_str(), vi++);
        for (char* c = path + rdir.size() + 1; *c; c++) if (*c == ' ' || *c == '/' || *c == '<' || *c == '>' || *c == ',') *c = '_';
        FILE* fr = fopen(path, "w"); if (fr) { fprintf(fr, "{\"kind\": \"seqx\", \"harness\": \"%s\", \"system\": \"%s\",\n \"ops_joined\": \"%s\",\n \"message\": \"%s\"}\n", harness, jesc(r.system).c_str(), ops.c_str(), msg.c_str()); fclose(fr); }
        viol_js += std::string(firstv ? "" : ", ") + "{\"system\": \"" + jesc(r.system) + "\", \"message\": \"" + msg + "\", \"ops\": \"" + ops + "\", \"replay\": \"" + path + "\"}"; firstv = false; nviol++;
        q = oe;
      }
      p = js.find("\"errors\": ["); e = js.find("], \"samples\"");
      std::string es = js.substr(p + 11, e - (p + 11)); if (!es.empty()) { err_js += std::string(firste ? "" : ", ") + es; firste = false; nerr++; }
      p = js.find("\"samples\": ["); e = js.rfind("]}");
      std::string ss = js.substr(p + 12, e - (p + 12)); if (!ss.empty() && firsts) { samp_js += ss; firsts = false; }
    } else {
      all_complete = false;
      for (auto& v : r.violations) {
        // crash: write the history by op index; names are resolved by the child on replay, so store indices as "#i"
        std::string ops; for (size_t k = 0; k < v.hist.size(); k++) { if (k) ops += " ; "; ops += "#" + std::to_string(v.hist[k]); }
        char path[512]; snprintf(path, sizeof path, "%s/%s-%s-crash-%d.json", rdir.c_str(), harness, r.system.c_str(), vi++);
        for (char* c = path + rdir.size() + 1; *c; c++) if (*c == ' ' || *c == '/' || *c == '<' || *c == '>' || *c == ',') *c = '_';
        FILE* fr = fopen(path, "w"); if (fr) { fprintf(fr, "{\"kind\": \"seqx\", \"harness\": \"%s\", \"system\": \"%s\",\n \"ops_joined\": \"%s\",\n \"message\": \"%s\"}\n", harness, jesc(r.system).c_str(), ops.c_str(), jesc(v.message).c_str()); fclose(fr); }
        viol_js += std::string(firstv ? "" : ", ") + "{\"system\": \"" + jesc(r.system) + "\", \"message\": \"" + jesc(v.message) + "\", \"ops\": \"" + ops + "\", \"replay\": \"" + path + "\"}"; firstv = false; nviol++;
      }
      for (auto& e2 : r.errors) { err_js += std::string(firste ? "" : ", ") + "\"" + jesc(r.system + ": " + e2) + "\""; firste = false; nerr++; }
    }
  }
  detail += "]"; viol_js += "]"; err_js += "]"; samp_js += "]";
  fprintf(fo, "{\"harness\": \"%s\", \"kind\": \"seqx\", \"systems\": %zu, \"depth\": %d, \"states\": %llu, \"transitions\": %llu, \"executions\": %llu, \"complete\": %s, \"wall_s\": %.2f,\n \"violations\": %s,\n \"errors\": %s,\n \"samples\": %s,\n \"detail\": %s}\n",
          harness, rs.size(), opt.depth, (unsigned long long)states, (unsigned long long)transitions, (unsigned long long)executions, all_complete && !nerr ? "true" : "false", now_s() - t0, viol_js.c_str(), err_js.c_str(), samp_js.c_str(), detail.c_str());
  if (!out.empty()) fclose(fo);
  return nerr ? 2 : (nviol ? 1 : 0);
}

}  // namespace seqx
#define SEQX_MAIN(harness) int main(int argc, char** argv) { register_systems(); return seqx::main_impl(argc, argv, harness); }
