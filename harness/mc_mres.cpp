// mc_mres.cpp — C06 (concurrent half): SharedMonotonicBufferResource / SwissMemoryResource used by several threads.
// Blocks handed to different threads are disjoint, aligned, inside pages obtained from the page allocator (or are
// oversize blocks from the upstream), stay valid until release(); release() runs every registered destructor once and
// returns every page / oversize block exactly once.
#include <atomic>
#include <memory_resource>
#include <thread>
#include <vector>

#include "babylon/reusable/memory_resource.h"
#include "babylon/reusable/page_allocator.h"
#include "bbmc.h"

using babylon::PageAllocator;
using babylon::SharedMonotonicBufferResource;
using babylon::SwissMemoryResource;

static const size_t PAGE = 128;
struct RecPages : public PageAllocator {
  static const int N = 40; alignas(256) char pages[N][PAGE];
  std::atomic<int> next{0}; std::atomic<int> out[N]; std::atomic<int> returned[N];
  RecPages() { for (int i = 0; i < N; i++) { out[i].store(0, std::memory_order_relaxed); returned[i].store(0, std::memory_order_relaxed); } bbmc::background(&next, sizeof next); bbmc::background(out, sizeof out); bbmc::background(returned, sizeof returned); }
  size_t page_size() const noexcept override { return PAGE; }
  using PageAllocator::allocate; using PageAllocator::deallocate;
  void allocate(void** ps, size_t num) noexcept override { for (size_t k = 0; k < num; k++) { int i = next.fetch_add(1, std::memory_order_relaxed); bbmc::require(i < N, "page slab exhausted"); out[i].store(1, std::memory_order_relaxed); ps[k] = pages[i]; } }
  void deallocate(void** ps, size_t num) noexcept override {
    for (size_t k = 0; k < num; k++) {
      long i = ((char*)ps[k] - &pages[0][0]) / (long)PAGE;
      bbmc::check(i >= 0 && i < N && (char*)ps[k] == pages[i], "something that is not a page was returned to the page allocator");
      bbmc::check(out[i].exchange(0, std::memory_order_relaxed) == 1, "a page was returned to the page allocator twice");
      returned[i].fetch_add(1, std::memory_order_relaxed);
    }
  }
  int outstanding() { int n = 0; for (int i = 0; i < N; i++) n += out[i].load(); return n; }
  bool inside_outstanding(const char* p, size_t n) { long i = (p - &pages[0][0]) / (long)PAGE; return p >= &pages[0][0] && i < N && out[i].load() == 1 && p + n <= pages[i] + PAGE; }
};
struct RecUpstream : public std::pmr::memory_resource {
  static const int N = 8; static const int BS = 4096; alignas(4096) char blocks[N][BS]; size_t bytes[N], align[N];
  std::atomic<int> next{0}; std::atomic<int> out[N];
  RecUpstream() { for (int i = 0; i < N; i++) out[i].store(0, std::memory_order_relaxed); bbmc::background(&next, sizeof next); bbmc::background(out, sizeof out); }
  void* do_allocate(size_t b, size_t a) override { int i = next.fetch_add(1, std::memory_order_relaxed); if (!(i < N && b <= (size_t)BS && a <= 4096)) { bbmc::note("upstream request bytes=%zu align=%zu index=%d", b, a, i); bbmc::require(false, "upstream slab"); } bytes[i] = b; align[i] = a; out[i].store(1, std::memory_order_relaxed); return blocks[i]; }
  void do_deallocate(void* p, size_t b, size_t a) override {
    long i = ((char*)p - &blocks[0][0]) / BS; bbmc::check(i >= 0 && i < N && (char*)p == blocks[i], "the upstream got back a pointer it never handed out");
    bbmc::check(out[i].exchange(0, std::memory_order_relaxed) == 1, "an oversize block was returned to the upstream twice");
    bbmc::check(bytes[i] == b && align[i] == a, "an oversize block was returned with a size/alignment different from its allocation");
  }
  bool do_is_equal(const std::pmr::memory_resource& o) const noexcept override { return this == &o; }
  int outstanding() { int n = 0; for (int i = 0; i < N; i++) n += out[i].load(); return n; }
  size_t outstanding_bytes() { size_t n = 0; for (int i = 0; i < N; i++) if (out[i].load()) n += bytes[i]; return n; }
  bool inside_outstanding(const char* p, size_t n) { long i = (p - &blocks[0][0]) / BS; return p >= &blocks[0][0] && i < N && out[i].load() == 1 && p + n <= blocks[i] + bytes[i]; }
};

struct Blk { char* p; size_t n, al; unsigned char pat; };
static RecPages* g_pages = nullptr;
// release() runs every registered destructor and only then gives memory back: a destructor may look at blocks of other threads
struct Tracked { std::atomic<int>* counter; const unsigned char* peer; ~Tracked() {
  int ret = 0; for (int i = 0; i < RecPages::N; i++) ret += g_pages->returned[i].load(std::memory_order_relaxed);
  bbmc::check(ret == 0, "a page went back to the page allocator before all registered destructors had run");
  if (peer) bbmc::check(*peer == 0x5a, "a registered destructor found another thread's block already recycled");
  counter->fetch_add(1, std::memory_order_relaxed); } };

static const char* names[] = {
    "shared: 2 threads x (alloc 8/8, alloc 40/16, alloc 100/8 -> new page), release",
    "shared: 2 threads allocate oversize (200/8) and page-size blocks, release",
    "shared: 2 threads register destructors, release runs each once",
    "shared: a thread allocates and dies, a later thread (same slot) allocates: blocks stay disjoint and valid",
    "shared: allocate, release, allocate again from 2 threads, destructor of the resource",
    "swiss: 2 threads convert to protobuf Arena concurrently: one arena, same address",
};
int harness_configs() { return sizeof(names) / sizeof(names[0]); }
const char* harness_config_name(int c) { return names[c]; }
const char* harness_name() { return "mc_mres"; }

static void fill(Blk& b) { for (size_t i = 0; i < b.n; i++) b.p[i] = (char)(b.pat + i); }
static void verify_blocks(std::vector<Blk>& all, RecPages& pages, RecUpstream& up) {
  for (size_t i = 0; i < all.size(); i++) {
    Blk& b = all[i];
    bbmc::check(((uintptr_t)b.p % b.al) == 0, "a block is not aligned as requested");
    bbmc::check(pages.inside_outstanding(b.p, b.n) || up.inside_outstanding(b.p, b.n), "a block does not lie inside a page or oversize block currently owned by the resource");
    for (size_t k = 0; k < b.n; k++) bbmc::check(b.p[k] == (char)(b.pat + k), "the bytes of a live block changed (blocks overlap or the memory was recycled before release)");
    for (size_t j = i + 1; j < all.size(); j++) bbmc::check(b.p + b.n <= all[j].p || all[j].p + all[j].n <= b.p, "two live blocks overlap");
  }
}

void harness_main(int cfg) {
  bbmc::sleeps_advance_clock(false);
  RecPages pages; RecUpstream up; g_pages = &pages;
  std::vector<Blk> got[3]; std::atomic<int> dtor[4]; for (auto& d : dtor) d = 0; bbmc::background(dtor, sizeof dtor);
  auto take = [&](SharedMonotonicBufferResource& r, int t, size_t n, size_t al, unsigned char pat) { Blk b{(char*)r.allocate(n, al), n, al, pat}; bbmc::check(b.p != nullptr, "allocate returned null"); fill(b); got[t].push_back(b); };
  auto all_blocks = [&] { std::vector<Blk> all; for (auto& g : got) all.insert(all.end(), g.begin(), g.end()); return all; };
  switch (cfg) {
    case 0: case 1: {
      {
        SharedMonotonicBufferResource res(pages); res.set_upstream(up);
        std::thread a([&] { if (cfg == 0) { take(res, 0, 8, 8, 0x10); take(res, 0, 40, 16, 0x20); take(res, 0, 100, 8, 0x30); } else { take(res, 0, 200, 8, 0x10); take(res, 0, PAGE, 8, 0x20); } });
        std::thread b([&] { if (cfg == 0) { take(res, 1, 8, 8, 0x50); take(res, 1, 40, 16, 0x60); take(res, 1, 100, 8, 0x70); } else { take(res, 1, PAGE, 8, 0x50); take(res, 1, 200, 8, 0x60); } });
        a.join(); b.join();
        auto all = all_blocks(); verify_blocks(all, pages, up);
        for (auto& blk : all) bbmc::check(res.contains(blk.p), "contains() denies a block the resource handed out");
        bbmc::check(res.space_allocated() == (size_t)pages.outstanding() * PAGE + up.outstanding_bytes(), "space_allocated() does not match the pages and oversize blocks currently owned");
        res.release();
        bbmc::check(pages.outstanding() == 0, "release() left pages outstanding"); bbmc::check(up.outstanding() == 0, "release() left oversize blocks outstanding");
        bbmc::check(res.space_allocated() == 0 && res.space_used() == 0, "accounting is not zero after release()");
      }
      break;
    }
    case 2: {
      Tracked* objs[4];
      {
        SharedMonotonicBufferResource res(pages); res.set_upstream(up);
        unsigned char* mark[2] = {nullptr, nullptr};
        std::thread a([&] { mark[0] = (unsigned char*)res.allocate(1, 1); *mark[0] = 0x5a; for (int i = 0; i < 2; i++) { objs[i] = new (res.allocate(sizeof(Tracked), alignof(Tracked))) Tracked{&dtor[i], nullptr}; res.register_destructor(objs[i]); } });
        std::thread b([&] { mark[1] = (unsigned char*)res.allocate(1, 1); *mark[1] = 0x5a; for (int i = 2; i < 4; i++) { objs[i] = new (res.allocate(sizeof(Tracked), alignof(Tracked))) Tracked{&dtor[i], nullptr}; res.register_destructor(objs[i]); } });
        a.join(); b.join();
        for (int i = 0; i < 4; i++) objs[i]->peer = mark[i < 2 ? 1 : 0];   // each destructor looks at a block of the other thread
        for (int i = 0; i < 4; i++) bbmc::check(dtor[i].load() == 0, "a registered destructor ran before release()");
        res.release();
        for (int i = 0; i < 4; i++) bbmc::check(dtor[i].load() == 1, dtor[i].load() == 0 ? "release() did not run a registered destructor" : "release() ran a registered destructor twice");
        bbmc::check(pages.outstanding() == 0, "release() left pages outstanding");
      }
      for (int i = 0; i < 4; i++) bbmc::check(dtor[i].load() == 1, "the destructor of the resource ran a registered destructor again");
      break;
    }
    case 3: {
      SharedMonotonicBufferResource res(pages); res.set_upstream(up);
      std::thread a([&] { take(res, 0, 24, 8, 0x10); take(res, 0, 24, 8, 0x20); });
      a.join();
      std::thread b([&] { take(res, 1, 24, 8, 0x50); take(res, 1, 120, 8, 0x60); });
      b.join();
      take(res, 2, 24, 8, 0x70);
      auto all = all_blocks(); verify_blocks(all, pages, up);
      res.release();
      bbmc::check(pages.outstanding() == 0, "release() left pages outstanding");
      break;
    }
    case 4: {
      {
        SharedMonotonicBufferResource res(pages); res.set_upstream(up);
        std::thread a([&] { take(res, 0, 64, 8, 0x10); }), b([&] { take(res, 1, 64, 8, 0x50); });
        a.join(); b.join();
        res.release();
        bbmc::check(pages.outstanding() == 0, "release() left pages outstanding");
        got[0].clear(); got[1].clear();
        std::thread c([&] { take(res, 0, 64, 8, 0x11); take(res, 0, 200, 8, 0x21); }), d([&] { take(res, 1, 64, 8, 0x51); });
        c.join(); d.join();
        auto all = all_blocks(); verify_blocks(all, pages, up);
      }
      bbmc::check(pages.outstanding() == 0 && up.outstanding() == 0, "the destructor of the resource left pages or oversize blocks outstanding");
      for (int i = 0; i < RecPages::N; i++) bbmc::check(pages.returned[i].load() <= 1, "a page was returned twice over the life of the resource");
      break;
    }
    case 5: {
      SwissMemoryResource res(pages); res.set_upstream(up);
      google::protobuf::Arena* pa = nullptr; google::protobuf::Arena* pb = nullptr;
      std::thread a([&] { pa = &static_cast<google::protobuf::Arena&>(res); }), b([&] { pb = &static_cast<google::protobuf::Arena&>(res); });
      a.join(); b.join();
      bbmc::check(pa != nullptr && pa == pb, "two threads converting the same resource got different arenas");
      bbmc::check(&static_cast<google::protobuf::Arena&>(res) == pa, "a later conversion returned a different arena");
      bbmc::check(res.contains(pa), "the arena object does not live in the resource");
      res.release();
      bbmc::check(pages.outstanding() == 0, "release() left pages outstanding");
      break;
    }
  }
}
