// sq_mres.cpp — C06: ExclusiveMonotonicBufferResource over a recording page allocator and recording upstreams.
#include <algorithm>
#include <map>
#include <memory_resource>
#include <set>
#include <string>
#include <vector>

#include "babylon/reusable/memory_resource.h"
#include "babylon/reusable/page_allocator.h"
#include "seqx.h"

using babylon::ExclusiveMonotonicBufferResource;

// pages come from a private slab, so addresses (and their alignment parity) are a function of the history only
struct RecPageAllocator : public babylon::PageAllocator {
  size_t psize; char* slab; std::vector<char*> free_list; std::set<char*> out; std::string error; size_t handed = 0, returned = 0; static const int NPAGES = 96;
  explicit RecPageAllocator(size_t p) : psize(p) {
    slab = (char*)aligned_alloc(4 * p, NPAGES * p);
    for (int i = NPAGES - 1; i >= 0; i--) free_list.push_back(slab + (size_t)i * p);
  }
  ~RecPageAllocator() noexcept override { free(slab); }
  size_t page_size() const noexcept override { return psize; }
  using PageAllocator::allocate; using PageAllocator::deallocate;
  void allocate(void** pages, size_t num) noexcept override {
    for (size_t i = 0; i < num; i++) {
      if (free_list.empty()) { error = "harness slab exhausted"; pages[i] = nullptr; continue; }
      char* p = free_list.back(); free_list.pop_back(); out.insert(p); handed++; pages[i] = p;
      memset(p, 0xEE, psize);
    }
  }
  void deallocate(void** pages, size_t num) noexcept override {
    for (size_t i = 0; i < num; i++) {
      char* p = (char*)pages[i];
      if (!out.count(p)) { if (error.empty()) error = "a page was returned to the page allocator that is not outstanding (double return or foreign pointer)"; continue; }
      out.erase(p); returned++; free_list.push_back(p);
    }
  }
};
struct RecUpstream : public std::pmr::memory_resource {
  struct Blk { size_t bytes, align; }; std::map<void*, Blk> out; std::string error; size_t allocs = 0, deallocs = 0; const char* label;
  explicit RecUpstream(const char* l) : label(l) {}
  ~RecUpstream() override { for (auto& e : out) ::operator delete(e.first, std::align_val_t(e.second.align)); }
  void* do_allocate(size_t bytes, size_t align) override { void* p = ::operator new(bytes ? bytes : 1, std::align_val_t(align)); out[p] = {bytes, align}; allocs++; return p; }
  void do_deallocate(void* p, size_t bytes, size_t align) override {
    auto it = out.find(p);
    if (it == out.end()) { if (error.empty()) error = std::string("upstream ") + label + " got back a block it never handed out (wrong upstream or double return)"; return; }
    if (it->second.bytes != bytes || it->second.align != align) { if (error.empty()) error = std::string("upstream ") + label + ": block returned with (bytes,alignment) different from the ones it was obtained with"; }
    ::operator delete(p, std::align_val_t(it->second.align)); out.erase(it); deallocs++;
  }
  bool do_is_equal(const std::pmr::memory_resource& o) const noexcept override { return this == &o; }
};

struct Block { char* p; size_t bytes, align; uint8_t pat; };
static thread_local std::vector<int>* g_dtor_log;
struct Tracked { int id; ~Tracked() { g_dtor_log->push_back(id); } };

enum { A_1_8, A_8_8, A_PM136, A_PM128, A_PM120, A_P, A_PP1, A_8_64, A_8_P, A_8_2P, A_0_1, A_PM1_1, A_2P_8, A_PP1_1, A_2P_4, REG_DTOR, REG_DTOR_14, PAGES_13, PAGES_14, OVERSIZE_14, RELEASE, MOVE_TO_OTHER, NUM_OPS };
static const char* names[] = {"alloc(1,8)", "alloc(8,8)", "alloc(p-136,8)", "alloc(p-128,8)", "alloc(p-120,8)", "alloc(p,8)", "alloc(p+1,8)", "alloc(8,64)", "alloc(8,p)", "alloc(8,2p)", "alloc(0,1)", "alloc(p-1,1)", "alloc(2p,8)", "alloc(p+1,1)", "alloc(2p,4)",
                              "register_destructor", "register_destructor x14", "alloc(p,8) x13", "alloc(p,8) x14", "alloc(p+1,8) x14", "release", "other=move(this)"};

template <int PAGE>
struct MresSys {
  std::vector<int> dtor_log;  // declared first: must outlive the resources, whose destructors still run registered destructors
  RecPageAllocator pa{PAGE}; RecUpstream u1{"U1"}, u2{"U2"};
  ExclusiveMonotonicBufferResource r[2]; int cur = 0;   // r[cur] is the resource in use; the other one is the move target
  RecUpstream* up[2];                                   // upstream each resource object was configured with
  std::vector<Block> blocks; std::vector<int> registered; int next_id = 0; uint8_t next_pat = 1;
  std::vector<std::pair<void*, RecUpstream*>> oversize_owner;  // which upstream must get which oversize block back
  static std::string name() { return "ExclusiveMonotonicBufferResource page=" + std::to_string(PAGE); }
  static int num_ops() { return NUM_OPS; }
  static std::string op_name(int op) { return names[op]; }
  MresSys() {
    r[0].set_page_allocator(pa); r[0].set_upstream(u1); up[0] = &u1;
    r[1].set_page_allocator(pa); r[1].set_upstream(u2); up[1] = &u2;
  }
  ~MresSys() { g_dtor_log = &dtor_log; }
  bool enabled(int op) {
    if (pa.handed - pa.returned > 60 && (op == PAGES_13 || op == PAGES_14)) return false;
    if (blocks.size() > 80 && (op == OVERSIZE_14 || op == PAGES_13 || op == PAGES_14)) return false;
    if (registered.size() > 50 && op == REG_DTOR_14) return false;
    return true;
  }
  std::string alloc(size_t b, size_t a) {
    size_t before_u = u1.allocs + u2.allocs;
    char* p = (char*)r[cur].allocate(b, a);
    if (u1.allocs + u2.allocs != before_u) {
      // the request went upstream: remember who has to get it back (the upstream the allocating object was configured with)
      RecUpstream* who = nullptr; for (auto* u : {&u1, &u2}) for (auto& e : u->out) { bool known = false; for (auto& o : oversize_owner) if (o.first == e.first) known = true; if (!known) { who = u; oversize_owner.push_back({e.first, u}); } }
      (void)who;
    }
    if (b == 0) return "";  // a zero-byte request designates no block; nothing to check
    if (p == nullptr) return "allocate returned null";
    if (((uintptr_t)p & (a - 1)) != 0) return "block is not aligned as requested: allocate(" + std::to_string(b) + "," + std::to_string(a) + ")";
    uint8_t pat = next_pat++; if (next_pat == 0xEE || next_pat == 0) next_pat = 1;
    memset(p, pat, b);
    blocks.push_back({p, b, a, pat});
    return "";
  }
  std::string reg() {
    g_dtor_log = &dtor_log;
    void* m = r[cur].allocate(sizeof(Tracked), alignof(Tracked));
    Tracked* t = new (m) Tracked{next_id++};
    blocks.push_back({(char*)m, 0, alignof(Tracked), 0});  // contents owned by the object, only disjointness is checked
    blocks.back().bytes = sizeof(Tracked); blocks.back().pat = 0;
    r[cur].register_destructor(t);
    registered.push_back(t->id);
    return "";
  }
  std::string apply(int op) {
    g_dtor_log = &dtor_log;
    size_t p = PAGE; std::string e;
    switch (op) {
      case A_1_8: return alloc(1, 8); case A_8_8: return alloc(8, 8); case A_PM136: return alloc(p - 136, 8); case A_PM128: return alloc(p - 128, 8); case A_PM120: return alloc(p - 120, 8);
      case A_P: return alloc(p, 8); case A_PP1: return alloc(p + 1, 8); case A_8_64: return alloc(8, 64); case A_8_P: return alloc(8, p); case A_8_2P: return alloc(8, 2 * p);
      case A_0_1: return alloc(0, 1); case A_PM1_1: return alloc(p - 1, 1); case A_2P_8: return alloc(2 * p, 8); case A_PP1_1: return alloc(p + 1, 1); case A_2P_4: return alloc(2 * p, 4);
      case REG_DTOR: return reg();
      case REG_DTOR_14: for (int i = 0; i < 14; i++) { e = reg(); if (!e.empty()) return e; } return "";
      case PAGES_13: for (int i = 0; i < 13; i++) { e = alloc(p, 8); if (!e.empty()) return e; } return "";
      case PAGES_14: for (int i = 0; i < 14; i++) { e = alloc(p, 8); if (!e.empty()) return e; } return "";
      case OVERSIZE_14: for (int i = 0; i < 14; i++) { e = alloc(p + 1, 8); if (!e.empty()) return e; } return "";
      case RELEASE: return do_release();
      case MOVE_TO_OTHER: {
        // the target is empty (released); after the move the source must be empty and the target owns everything
        r[1 - cur] = std::move(r[cur]);
        // whatever was obtained so far still has to go back to the upstream it came from
        cur = 1 - cur;
        if (r[1 - cur].space_allocated() != 0 || r[1 - cur].space_used() != 0) return "moved-from resource still reports allocated space";
        return "";
      }
    }
    return "bad op";
  }
  std::string do_release() {
    std::string e = verify_patterns(); if (!e.empty()) return e;
    dtor_log.clear();
    r[cur].release();
    // destructors: each once, reverse registration order
    std::vector<int> want(registered.rbegin(), registered.rend());
    if (dtor_log != want) {
      std::string got; for (int x : dtor_log) got += std::to_string(x) + ","; std::string w; for (int x : want) w += std::to_string(x) + ",";
      return "release(): destructors ran as [" + got + "], expected each registered object exactly once in reverse order [" + w + "]";
    }
    registered.clear(); blocks.clear();
    if (!pa.error.empty()) return pa.error;
    if (!pa.out.empty()) return "release(): " + std::to_string(pa.out.size()) + " page(s) were not returned to the page allocator";
    if (!u1.error.empty()) return u1.error; if (!u2.error.empty()) return u2.error;
    if (!u1.out.empty() || !u2.out.empty()) return "release(): an oversize block was not returned to the upstream it came from";
    oversize_owner.clear();
    if (r[cur].space_used() != 0 || r[cur].space_allocated() != 0) return "release(): accounting is not zero afterwards";
    return "";
  }
  std::string verify_patterns() {
    for (auto& b : blocks) if (b.pat) for (size_t i = 0; i < b.bytes; i++) if ((uint8_t)b.p[i] != b.pat) return "a live block lost its contents (overwritten by a later allocation or by bookkeeping)";
    return "";
  }
  // intervals of the resource's own bookkeeping, read from the private fields
  void bookkeeping(std::vector<std::pair<char*, size_t>>& out) {
    auto& R = r[cur];
    // the arrays are poisoned by babylon itself under ASan: read them the way babylon does
    auto walk = [&](auto* a) { while (a) { out.push_back({(char*)a, sizeof(*a)}); babylon::SanitizerHelper::PoisonGuard g{a}; a = a->next; } };
    walk(R._last_page_array); walk(R._last_oversize_page_array); walk(R._last_destroy_task_array);
  }
  std::string check() {
    if (!pa.error.empty()) return pa.error; if (!u1.error.empty()) return u1.error; if (!u2.error.empty()) return u2.error;
    std::string e = verify_patterns(); if (!e.empty()) return e;
    std::vector<std::pair<char*, size_t>> bk; bookkeeping(bk);
    for (size_t i = 0; i < blocks.size(); i++) {
      auto& b = blocks[i]; if (b.bytes == 0) continue;
      // inside memory the resource owns
      bool owned = false;
      for (char* pg : pa.out) if (b.p >= pg && b.p + b.bytes <= pg + PAGE) owned = true;
      for (auto* u : {&u1, &u2}) for (auto& o : u->out) if (b.p >= (char*)o.first && b.p + b.bytes <= (char*)o.first + o.second.bytes) owned = true;
      if (!owned) return "a block returned by allocate is not inside memory the resource owns";
      if (!r[cur].contains(b.p) || !r[cur].contains(b.p + b.bytes - 1)) return "contains() is false for a live block";
      for (size_t j = i + 1; j < blocks.size(); j++) { auto& c = blocks[j]; if (c.bytes && b.p < c.p + c.bytes && c.p < b.p + b.bytes) return "two live blocks overlap"; }
      for (auto& k : bk) if (b.p < k.first + k.second && k.first < b.p + b.bytes) return "a live block overlaps the resource's own bookkeeping (page array / oversize array / destroy-task array)";
    }
    for (size_t i = 0; i < bk.size(); i++) for (size_t j = i + 1; j < bk.size(); j++) if (bk[i].first < bk[j].first + bk[j].second && bk[j].first < bk[i].first + bk[i].second) return "two bookkeeping arrays overlap";
    int x; if (r[cur].contains(&x)) return "contains() is true for a foreign pointer";
    return "";
  }
  std::string canon() {
    auto& R = r[cur];
    auto cnt = [](auto* a) { int n = 0; while (a) { n++; babylon::SanitizerHelper::PoisonGuard g{a}; a = a->next; } return n; };
    std::string s = "cur=" + std::to_string(cur);
    s += " rem=" + std::to_string(R._free_end - R._free_begin) + " fb%2p=" + std::to_string(R._free_begin ? (uintptr_t)R._free_begin % (2 * PAGE) : 0);
    s += " pa=" + std::to_string(cnt(R._last_page_array)) + ":" + std::to_string(R._last_page_array ? R._last_page_array->pages + 15 - R._last_page_pointer : 0);
    s += " oa=" + std::to_string(cnt(R._last_oversize_page_array)) + ":" + std::to_string(R._last_oversize_page_array ? R._last_oversize_page_array->pages + 15 - R._last_oversize_page_pointer : 0);
    s += " da=" + std::to_string(cnt(R._last_destroy_task_array)) + ":" + std::to_string(R._last_destroy_task_array ? R._last_destroy_task_array->tasks + 15 - R._last_destroy_task_pointer : 0);
    s += " pages=" + std::to_string(pa.out.size()) + " u1=" + std::to_string(u1.out.size()) + " u2=" + std::to_string(u2.out.size()) + " blocks=" + std::to_string(blocks.size()) + " reg=" + std::to_string(registered.size());
    return s;
  }
};

static void register_systems() {
  seqx::add<MresSys<256>>();
  seqx::add<MresSys<512>>();
  seqx::add<MresSys<4096>>();
}
SEQX_MAIN("sq_mres")
