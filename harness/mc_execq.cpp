// mc_execq.cpp — C16: ConcurrentExecutionQueue under the bbmc scheduler, with healthy and failing executors.
#include <atomic>
#include <mutex>
#include <string>
#include <thread>
#include <vector>

#include "babylon/concurrent/execution_queue.h"
#include "bbmc.h"

using babylon::ConcurrentExecutionQueue;
using babylon::Executor;
using babylon::MoveOnlyFunction;

struct Cfg { const char* name; int producers; int items; int cap; int exec; bool faults; };  // exec: 0 inline, 1 thread per launch
static const Cfg cfgs[] = {
    {"1 producer x2, cap 1, inline", 1, 2, 1, 0, false},
    {"2 producers x1, cap 2, inline", 2, 1, 2, 0, false},
    {"2 producers x2, cap 1, inline", 2, 2, 1, 0, false},
    {"1 producer x2, cap 2, thread executor", 1, 2, 2, 1, false},
    {"2 producers x1, cap 1, thread executor", 2, 1, 1, 1, false},
    {"2 producers x2, cap 2, thread executor", 2, 2, 2, 1, false},
    {"2 producers x1, cap 4, thread executor, launches may be refused", 2, 1, 4, 1, true},
    {"1 producer x3, cap 4, inline, launches may be refused", 1, 3, 4, 0, true},
    {"2 producers x2, cap 4, thread executor, launches may be refused", 2, 2, 4, 1, true},
};
int harness_configs() { return sizeof(cfgs) / sizeof(cfgs[0]); }
const char* harness_config_name(int c) { return cfgs[c].name; }
const char* harness_name() { return "mc_execq"; }

struct TestExecutor : public Executor {
  int kind; bool faults; std::thread threads[16]; std::atomic<int> nthreads{0}; std::atomic<int> refused{0}, accepted{0};
  int invoke(MoveOnlyFunction<void(void)>&& function) noexcept override {
    if (faults && bbmc::choose(2, true) == 1) { refused.fetch_add(1, std::memory_order_relaxed); return -1; }
    accepted.fetch_add(1, std::memory_order_relaxed);
    if (kind == 0) { function(); return 0; }
    int i = nthreads.fetch_add(1, std::memory_order_relaxed);
    bbmc::require(i < 16, "too many consumer launches");
    threads[i] = std::thread([f = std::move(function)]() mutable { f(); });
    return 0;
  }
  void join_all() { int n = nthreads.load(); for (int i = 0; i < n; i++) threads[i].join(); }
};

void harness_main(int c) {
  const Cfg& cf = cfgs[c];
  bbmc::sleeps_advance_clock(false);
  TestExecutor ex; ex.kind = cf.exec; ex.faults = cf.faults;
  bbmc::background(&ex.nthreads, sizeof ex.nthreads); bbmc::background(&ex.refused, sizeof ex.refused); bbmc::background(&ex.accepted, sizeof ex.accepted);
  typedef ConcurrentExecutionQueue<int> Q;
  Q q;
  int consumed[8]; int nconsumed = 0; int in_consume = 0;   // plain on purpose: the consume function must never run in two places
  bbmc::race_scope(&in_consume, sizeof in_consume); bbmc::race_scope(&nconsumed, sizeof nconsumed); bbmc::race_scope(consumed, sizeof consumed);
  q.initialize(cf.cap, ex, [&](Q::Iterator b, Q::Iterator e) {
    bbmc::check(in_consume == 0, "the consume function is running in two places at once");
    in_consume = 1;
    for (; b != e; ++b) { bbmc::require(nconsumed < 8, "too many items"); consumed[nconsumed++] = *b; }
    in_consume = 0;
  });
  int rets[2][4];
  std::vector<std::thread> ps;
  for (int p = 0; p < cf.producers; p++) ps.emplace_back([&, p] { for (int i = 0; i < cf.items; i++) rets[p][i] = q.execute((p + 1) * 10 + i); });
  for (auto& t : ps) t.join();
  int total = cf.producers * cf.items;
  if (cf.faults) {
    // the executor has recovered: the next accepted signal must drain everything that is pending
    ex.faults = false;
    if (q.size() != 0 || ex.refused.load() > 0) q.signal_push_event();
  }
  q.join();
  ex.join_all();
  // ---- oracles -----------------------------------------------------------------------------------
  bbmc::race_scope_end(&nconsumed, sizeof nconsumed); bbmc::race_scope_end(consumed, sizeof consumed);
  bbmc::check(nconsumed == total, nconsumed < total ? "join() returned although a submitted item was never consumed (stranded item)" : "an item was consumed more than once");
  for (int p = 0; p < cf.producers; p++) {
    int last = -1;
    for (int k = 0; k < nconsumed; k++) if (consumed[k] / 10 == p + 1) { bbmc::check(consumed[k] % 10 == last + 1, "items of one producer were delivered out of order or duplicated"); last = consumed[k] % 10; }
    bbmc::check(last == cf.items - 1, "an item of a producer is missing");
  }
  if (!cf.faults) for (int p = 0; p < cf.producers; p++) for (int i = 0; i < cf.items; i++) bbmc::check(rets[p][i] == 0, "execute() reported failure with a healthy executor");
  bbmc::observe(ex.accepted.load()); bbmc::observe(ex.refused.load());
}
