// litmus.cpp — self-tests of the bbmc runtime: programs with known outcome sets.
#include <atomic>
#include <mutex>
#include <thread>
#include <linux/futex.h>
#include <sys/syscall.h>
#include <unistd.h>
#include <errno.h>
#include <time.h>
#include "bbmc.h"

static std::atomic<int> X, Y;
static std::atomic<uint32_t> W;
static int r0, r1, data;

static const char* names[] = {
    "SB-relaxed",         // 0: SC: 3 outcomes, TSO: 4
    "SB-seqcst-fence",    // 1: 3 outcomes in both modes
    "MP-relaxed-race",    // 2: race on data must be reported
    "MP-release-acquire", // 3: no race, reader sees 42
    "SB-mixed-size",      // 4: 16-bit store, 32-bit load of the container; TSO: both can miss
    "futex-lost-wakeup",  // 5: waker without re-check -> deadlock must be found
    "futex-correct",      // 6: no deadlock
    "mutex-counter",      // 7: always 2
    "thread_local-dtor",  // 8: dtor runs as part of the model
    "timed-wait",         // 9: timeout on virtual time
    "use-after-free",     // 10: must be reported
    "MP-fence-fence",     // 11: release fence + relaxed store / relaxed load + acquire fence: no race
    "weak-cas-spurious",  // 12: E=1 explores the failing branch
    "spin-yield",         // 13: waiter spins with sched_yield, terminates
    "livelock",           // 14: spinner on a flag nobody sets -> livelock reported
};
int harness_configs() { return sizeof(names) / sizeof(names[0]); }
const char* harness_config_name(int c) { return names[c]; }
const char* harness_name() { return "litmus"; }

static long futex(std::atomic<uint32_t>* a, int op, uint32_t v, const timespec* ts = nullptr) {
  return syscall(SYS_futex, a, op | FUTEX_PRIVATE_FLAG, v, ts);
}
struct TL { ~TL() { X.fetch_add(1, std::memory_order_seq_cst); } };
static thread_local TL tl_obj;
static void touch_tl() { (void)&tl_obj; }

void harness_main(int cfg) {
  X = 0; Y = 0; W = 0; r0 = r1 = -1; data = 0;
  switch (cfg) {
    case 0: {
      std::thread a([] { X.store(1, std::memory_order_relaxed); r0 = Y.load(std::memory_order_relaxed); });
      std::thread b([] { Y.store(1, std::memory_order_relaxed); r1 = X.load(std::memory_order_relaxed); });
      a.join(); b.join();
      bbmc::observe(r0 * 2 + r1);
      if (!bbmc::is_tso()) bbmc::check(r0 == 1 || r1 == 1, "SC forbids r0=r1=0 in SB");
      break;
    }
    case 1: {
      std::thread a([] { X.store(1, std::memory_order_relaxed); std::atomic_thread_fence(std::memory_order_seq_cst); r0 = Y.load(std::memory_order_relaxed); });
      std::thread b([] { Y.store(1, std::memory_order_relaxed); std::atomic_thread_fence(std::memory_order_seq_cst); r1 = X.load(std::memory_order_relaxed); });
      a.join(); b.join();
      bbmc::observe(r0 * 2 + r1);
      bbmc::check(r0 == 1 || r1 == 1, "fenced SB must not give r0=r1=0");
      break;
    }
    case 2: case 3: {
      bbmc::race_scope(&data, sizeof data);
      bool ra = (cfg == 3);
      std::thread a([ra] { data = 42; X.store(1, ra ? std::memory_order_release : std::memory_order_relaxed); });
      std::thread b([ra] { if (X.load(ra ? std::memory_order_acquire : std::memory_order_relaxed) == 1) r0 = data; });
      a.join(); b.join();
      bbmc::observe(r0);
      bbmc::check(r0 == -1 || r0 == 42, "reader saw a torn value");
      break;
    }
    case 4: {
      // waiter-bit protocol in miniature: T1 stores the low half (16 bit) then loads the word; T2 sets the high half by RMW-free store then loads
      std::thread a([] { reinterpret_cast<std::atomic<uint16_t>*>(&W)->store(1, std::memory_order_relaxed); r0 = (int)(W.load(std::memory_order_relaxed) >> 16); });
      std::thread b([] { (reinterpret_cast<std::atomic<uint16_t>*>(&W) + 1)->store(1, std::memory_order_relaxed); r1 = (int)(W.load(std::memory_order_relaxed) & 0xffff); });
      a.join(); b.join();
      bbmc::observe(r0 * 2 + r1);
      if (!bbmc::is_tso()) bbmc::check(r0 == 1 || r1 == 1, "SC forbids both halves missing");
      break;
    }
    case 5: case 6: {
      // correct: sleep on the word that carries the condition; wrong: sleep on a word whose value never changes
      static std::atomic<uint32_t> F; F = 0;
      bool correct = (cfg == 6);
      std::thread waiter([correct] {
        while (W.load(std::memory_order_acquire) == 0) {
          if (correct) futex(&W, FUTEX_WAIT, 0); else futex(&F, FUTEX_WAIT, 0);
        }
      });
      std::thread waker([correct] {
        W.store(1, std::memory_order_release);
        futex(correct ? &W : &F, FUTEX_WAKE, 1);
      });
      waiter.join(); waker.join();
      break;
    }
    case 7: {
      static std::mutex m; static int counter; counter = 0;
      bbmc::race_scope(&counter, sizeof counter);
      std::thread a([] { std::lock_guard<std::mutex> g(m); counter++; });
      std::thread b([] { std::lock_guard<std::mutex> g(m); counter++; });
      a.join(); b.join();
      bbmc::check(counter == 2, "mutex lost an increment");
      break;
    }
    case 8: {
      std::thread a([] { touch_tl(); });
      std::thread b([] { r0 = X.load(); });
      a.join(); b.join();
      bbmc::observe(r0);
      bbmc::check(X.load() == 1, "thread_local destructor did not run before join returned");
      break;
    }
    case 9: {
      int64_t t0 = bbmc::now_ns();
      timespec ts = {0, 5000000};
      long rc = futex(&W, FUTEX_WAIT, 0, &ts);
      bbmc::check(rc == -1 && errno == ETIMEDOUT, "timed futex wait must time out");
      bbmc::check(bbmc::now_ns() - t0 >= 5000000, "virtual clock did not advance to the deadline");
      break;
    }
    case 10: {
      int* p = new int(7);
      std::thread a([p] { delete p; });
      std::thread b([p] { r0 = *p; });
      a.join(); b.join();
      break;
    }
    case 11: {
      bbmc::race_scope(&data, sizeof data);
      std::thread a([] { data = 42; std::atomic_thread_fence(std::memory_order_release); X.store(1, std::memory_order_relaxed); });
      std::thread b([] { if (X.load(std::memory_order_relaxed) == 1) { std::atomic_thread_fence(std::memory_order_acquire); r0 = data; } });
      a.join(); b.join();
      bbmc::observe(r0);
      break;
    }
    case 12: {
      int e = 0; bool ok = X.compare_exchange_weak(e, 1);
      bbmc::observe(ok);
      break;
    }
    case 13: {
      std::thread a([] { while (X.load(std::memory_order_acquire) == 0) sched_yield(); r0 = 1; });
      std::thread b([] { X.store(1, std::memory_order_release); });
      a.join(); b.join();
      bbmc::check(r0 == 1, "spinner did not finish");
      break;
    }
    case 14: {
      std::thread a([] { while (X.load(std::memory_order_acquire) == 0) sched_yield(); });
      a.join();
      break;
    }
  }
}
