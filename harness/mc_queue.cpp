// mc_queue.cpp — C01/C02: ConcurrentBoundedQueue under the bbmc scheduler.
// Configurations are client programs (threads x operations) over the queue's public API.
#include <atomic>
#include <cstdio>
#include <cstring>
#include <string>
#include <thread>
#include <vector>

#include "babylon/concurrent/bounded_queue.h"
#include "bbmc.h"
#include "hist.h"

using babylon::ConcurrentBoundedQueue;

struct Payload {
  uint64_t v;
  uint64_t chk;
};
typedef ConcurrentBoundedQueue<Payload> Queue;

enum Kind { PUSH, TRY_PUSH, PUSH_N, TRY_PUSH_N, CPUSH_N, POP, TRY_POP, POP_N, TRY_POP_N, CPOP_N, TPOP_UNTIL };
struct Op { Kind kind; int k; int64_t timeout_ns; };
struct Program {
  std::string name;
  int cap;
  int flavor;  // 0: concurrent + futex wait + futex wake (default API); 1: concurrent spin (no futex); 2: non-concurrent spin; 3: non-concurrent futex;
               // 4: thread 0 non-concurrent spin, the others concurrent spin; 5: thread 0 non-concurrent futex, the others concurrent futex
  std::vector<std::vector<Op>> threads;
  bool progress;  // blocking operations are matched, so every execution must terminate
  size_t start_round = 0;  // the queue starts as if this many full laps had already passed through it (see fast_forward)
};
static std::vector<Program> g_programs;

static bool parse_op(const char* tok, Op* op) {
  struct { const char* n; Kind k; bool arg; } tab[] = {
      {"trypushn", TRY_PUSH_N, true}, {"cpushn", CPUSH_N, true}, {"pushn", PUSH_N, true}, {"trypush", TRY_PUSH, false}, {"push", PUSH, false},
      {"trypopn", TRY_POP_N, true}, {"cpopn", CPOP_N, true}, {"popn", POP_N, true}, {"trypop", TRY_POP, false}, {"pop", POP, false}, {"tpop", TPOP_UNTIL, true}};
  for (auto& e : tab) {
    size_t n = strlen(e.n);
    if (!strncmp(tok, e.n, n)) {
      op->kind = e.k; op->k = 1; op->timeout_ns = 0;
      if (e.arg) { op->k = tok[n] - '0'; if (tok[n + 1] == '@') op->timeout_ns = atoll(tok + n + 2); }
      else if (tok[n] != 0) continue;
      return true;
    }
  }
  return false;
}
static void add(const char* name, int cap, int flavor, std::initializer_list<const char*> threads, bool progress = true, size_t start_round = 0) {
  Program p; p.name = name; p.cap = cap; p.flavor = flavor; p.progress = progress; p.start_round = start_round;
  for (const char* t : threads) {
    std::vector<Op> ops; std::string s(t); size_t pos = 0;
    while (pos < s.size()) {
      size_t e = s.find(' ', pos); if (e == std::string::npos) e = s.size();
      std::string tok = s.substr(pos, e - pos); pos = e + 1;
      if (tok.empty()) continue;
      Op op; if (!parse_op(tok.c_str(), &op)) { fprintf(stderr, "bad op %s\n", tok.c_str()); abort(); }
      ops.push_back(op);
    }
    p.threads.push_back(ops);
  }
  p.name += " cap" + std::to_string(cap) + " f" + std::to_string(flavor) + (start_round ? " lap" + std::to_string(start_round) : std::string()) + ":";
  for (const char* t : threads) p.name += std::string(" [") + t + "]";
  g_programs.push_back(p);
}

static void build_programs() {
  if (!g_programs.empty()) return;
  // ---- curated, sharp programs (quick tier) -------------------------------------------------
  // default flavour (futex wait + wake)
  add("spsc-1", 1, 0, {"push push", "pop pop"});
  add("2prod-1slot", 1, 0, {"push", "push", "pop pop"});
  add("2cons-1slot", 1, 0, {"push push", "pop", "pop"});
  add("try-vs-slow-producer", 2, 0, {"push", "trypop trypop"});
  add("trypush-vs-slow-consumer", 1, 0, {"trypush trypush", "pop"}, false);
  add("batch-wrap", 2, 0, {"push pushn2", "pop popn2"});
  add("batch-push-single-pop", 2, 0, {"pushn2", "pop", "pop"});
  add("batch-pop-single-push", 2, 0, {"push", "push", "popn2"});
  add("trybatch", 2, 0, {"pushn2", "trypopn2 trypopn2"});
  add("trypushn-full", 2, 0, {"trypushn2 trypushn2", "pop"}, false);
  // compensating variants never wake futex sleepers ("concurrent and non-waiting" by documentation), so the
  // pairing rule allows them only next to spinning, try_ or other compensating operations
  add("cpop-on-empty", 1, 1, {"cpopn1", "push"});
  add("cpush-on-full", 1, 1, {"push cpushn1", "trypop"});
  add("cpop-vs-trypop", 2, 1, {"pushn2", "cpopn2", "trypop"});
  add("cpush-cpop", 2, 1, {"cpushn2", "cpopn2"});
  add("cpop-cpop-1", 1, 1, {"cpopn1", "cpopn1", "trypush"});
  add("cpush-cpush-1", 1, 1, {"cpushn1", "cpushn1", "trypop"});
  add("wrap-twice-1", 1, 0, {"push push push", "pop pop pop"});
  add("3way", 2, 0, {"push trypop", "push", "pop"});
  add("timed-pop-empty", 2, 0, {"tpop1@1000000"});
  add("timed-pop-racing", 2, 0, {"tpop2@1000000", "push push"});
  // spin flavour
  add("spsc-spin", 1, 1, {"push push", "pop pop"});
  add("2prod-spin", 1, 1, {"push", "push", "pop pop"});
  add("batch-spin", 2, 1, {"push pushn2", "popn2 pop"});
  // non-concurrent flavours (single producer / single consumer only)
  add("spsc-nc-spin", 1, 2, {"push trypush", "pop trypop"}, false);
  add("spsc-nc-batch", 2, 2, {"pushn2 trypushn2", "popn2 trypopn2"}, false);
  add("spsc-nc-futex", 1, 3, {"push push", "pop pop"});
  add("spsc-nc-futex-batch", 2, 3, {"pushn2 push", "pop popn2"});
  // ---- C02 blocking pairs: two sleepers on one slot with different expected versions ---------------
  add("two-sleepers-1slot", 1, 0, {"pop", "push", "push pop"});
  add("producer-sleeps-full", 1, 0, {"push push", "pop", "pop"});
  add("batch-waker-single-sleeper", 2, 0, {"pop", "pushn2 ", "pop"});
  add("single-waker-batch-sleeper", 2, 0, {"popn2", "push", "push"});
  add("batch-both", 2, 0, {"popn2 popn2", "pushn2 pushn2"});
  add("try-waker", 1, 0, {"pop", "trypush"}, false);
  add("trybatch-waker", 2, 0, {"popn2", "trypushn2"}, false);
  add("trypop-wakes-producer", 1, 0, {"push push", "trypop pop"});
  // ---- a single non-concurrent producer next to concurrent consumers: batch requests that straddle the ring end while a
  //      consumer of the previous lap still owns a slot --------------------------------------------------------------------
  add("nc-trypushn-straddle", 2, 4, {"push push push trypushn2", "pop pop", "pop"}, false);
  add("nc-trypushn-straddle-futex", 2, 5, {"push push push trypushn2", "pop pop", "pop"}, false);
  add("nc-pushn-straddle", 2, 4, {"push pushn2", "pop", "pop pop"});
  // ---- the 16-bit slot version wraps after 32768 laps: the same programs started just before the wrap -----------------------
  add("spsc-1", 1, 0, {"push push", "pop pop"}, true, 32767);
  add("two-sleepers-1slot", 1, 0, {"pop", "push", "push pop"}, true, 32767);
  add("producer-sleeps-full", 1, 0, {"push push", "pop", "pop"}, true, 32767);
  add("producer-sleeps-full", 1, 0, {"push push", "pop", "pop"}, true, 32766);
  add("batch-both", 2, 0, {"popn2 popn2", "pushn2 pushn2"}, true, 32767);
  add("try-vs-slow-producer", 2, 0, {"push", "trypop trypop"}, true, 32768);
  add("trypush-vs-slow-consumer", 1, 0, {"trypush trypush", "pop"}, false, 32767);
  add("trybatch", 2, 0, {"pushn2", "trypopn2 trypopn2"}, true, 32768);
  add("spsc-spin", 1, 1, {"push push", "pop pop"}, true, 32767);
  add("timed-pop-racing", 2, 0, {"tpop2@1000000", "push push"}, true, 32767);
}
// The queue as it is after `laps` full laps went through it and it is empty again: tickets at laps*capacity, every slot at
// the push version of that lap, no waiter bits. harness/sq_queue.cpp checks this against really pushing and popping that many
// elements (same private state, same behaviour afterwards).
static void fast_forward(ConcurrentBoundedQueue<Payload>& q, size_t laps) {
  size_t cap = q.capacity();
  q._next_push_index.store(laps * cap, std::memory_order_relaxed); q._next_pop_index.store(laps * cap, std::memory_order_relaxed);
  for (size_t i = 0; i < cap; i++) q._slots.futex(i)._futex.value().store((uint32_t)(uint16_t)(laps << 1), std::memory_order_relaxed);
}
int harness_configs() { build_programs(); return (int)g_programs.size(); }
const char* harness_config_name(int c) { build_programs(); return g_programs[c].name.c_str(); }
const char* harness_name() { return "mc_queue"; }

// --------------------------------------------------------------------------------------------------
struct Ctx {
  Queue* q;
  OpHistory* h;
};
static inline void produce(Payload& p, uint64_t v) {
  bbmc::race_scope(&p, sizeof p);
  p.v = v; p.chk = ~v;
}
static inline uint64_t consume(Payload& p) {
  bbmc::race_scope(&p, sizeof p);
  uint64_t v = p.v; uint64_t c = p.chk;
  bbmc::check(c == ~v, "consumer saw a partially written element");
  return v;
}

template <bool C, bool WAIT, bool WAKE>
static void run_op(Ctx& cx, int tid, int opi, const Op& op) {
  Queue& q = *cx.q;
  uint64_t base = (uint64_t)(tid + 1) * 1000 + (uint64_t)(opi + 1) * 10;
  OpRec& r = cx.h->begin(tid, (int)op.kind, op.k);
  uint64_t next = base;
  auto push_cb = [&](Payload& p) { uint64_t v = ++next; produce(p, v); r.pushed.push_back(v); };
  auto pop_cb = [&](Payload& p) { r.popped.push_back(consume(p)); };
  auto push_range = [&](Queue::Iterator b, Queue::Iterator e) { for (; b != e; ++b) push_cb(*b); };
  auto pop_range = [&](Queue::Iterator b, Queue::Iterator e) { for (; b != e; ++b) pop_cb(*b); };
  switch (op.kind) {
    case PUSH: q.template push<C, WAIT, WAKE>(push_cb); break;
    case TRY_PUSH: r.ok = q.template try_push<C, WAKE>(push_cb); break;
    case PUSH_N: q.template push_n<C, WAIT, WAKE>(push_range, op.k); break;
    case TRY_PUSH_N: q.template try_push_n<C, WAKE>(push_range, op.k); break;
    case CPUSH_N: q.push_n(push_range, pop_range, op.k); break;
    case POP: q.template pop<C, WAIT, WAKE>(pop_cb); break;
    case TRY_POP: r.ok = q.template try_pop<C, WAKE>(pop_cb); break;
    case POP_N: q.template pop_n<C, WAIT, WAKE>(pop_range, op.k); break;
    case TRY_POP_N: q.template try_pop_n<C, WAKE>(pop_range, op.k); break;
    case CPOP_N: q.pop_n(pop_range, push_range, op.k); break;
    case TPOP_UNTIL: {
      timespec ts = {(time_t)(op.timeout_ns / 1000000000LL), (long)(op.timeout_ns % 1000000000LL)};
      int64_t t0 = bbmc::now_ns();
      q.template try_pop_n_exclusively_until<WAKE>(pop_range, op.k, &ts);
      int64_t el = bbmc::now_ns() - t0;
      // the futex timeout is exact on the virtual clock; allow one spin quantum
      bbmc::check(el <= op.timeout_ns + 2000000, "timed pop returned later than its deadline");
      if ((int)r.popped.size() < op.k) bbmc::check(el >= op.timeout_ns, "timed pop came up short before its deadline");
      break;
    }
  }
  cx.h->end(r);
}
static void run_thread(Ctx cx, const Program* p, int tid) {
  const std::vector<Op>& ops = p->threads[tid];
  for (size_t i = 0; i < ops.size(); i++) {
    switch (p->flavor) {
      case 0: run_op<true, true, true>(cx, tid, (int)i, ops[i]); break;
      case 1: run_op<true, false, false>(cx, tid, (int)i, ops[i]); break;
      case 2: run_op<false, false, false>(cx, tid, (int)i, ops[i]); break;
      case 3: run_op<false, true, true>(cx, tid, (int)i, ops[i]); break;
      case 4: if (tid == 0) run_op<false, false, false>(cx, tid, (int)i, ops[i]); else run_op<true, false, false>(cx, tid, (int)i, ops[i]); break;
      default: if (tid == 0) run_op<false, true, true>(cx, tid, (int)i, ops[i]); else run_op<true, true, true>(cx, tid, (int)i, ops[i]); break;
    }
  }
}

void harness_main(int cfg) {
  build_programs();
  const Program& p = g_programs[cfg];
  bbmc::expect_progress(true);
  bool timed = false; for (auto& t : p.threads) for (auto& o : t) if (o.kind == TPOP_UNTIL) timed = true;
  bbmc::sleeps_advance_clock(timed);  // untimed spinning does not depend on the clock
  Queue q(p.cap);
  bbmc::require(q.capacity() == (size_t)p.cap, "capacity is not the requested power of two");
  if (p.start_round) fast_forward(q, p.start_round);
  OpHistory h;
  Ctx cx{&q, &h};
  std::vector<std::thread> ts;
  for (size_t t = 0; t < p.threads.size(); t++) ts.emplace_back(run_thread, cx, &p, (int)t);
  for (auto& t : ts) t.join();
  // drain what is left (sequentially) as one final pop operation
  OpRec& r = h.begin(99, (int)TRY_POP_N, 64);
  Payload pl;
  while (q.try_pop(pl)) { bbmc::check(pl.chk == ~pl.v, "left-over element is torn"); r.popped.push_back(pl.v); }
  h.end(r);
  // ---- oracles ---------------------------------------------------------------------------------
  h.check_conservation();
  h.check_fifo();
  h.check_try_results(p.cap, (int)TRY_PUSH, (int)TRY_PUSH_N, (int)TRY_POP, (int)TRY_POP_N);
  bbmc::observe(h.outcome_hash());
}
