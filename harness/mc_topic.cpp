// mc_topic.cpp — C15: ConcurrentTransientTopic under the bbmc scheduler (store buffering matters for the wake-up protocol).
#include <atomic>
#include <thread>
#include <vector>

#include "babylon/concurrent/transient_topic.h"
#include "bbmc.h"

struct Item { int v; int chk; };
typedef babylon::ConcurrentTransientTopic<Item> Topic;

static const char* names[] = {
    "publish,publish,close || consume() until end",
    "publish || publish ; close after both || consume(2), consume()",
    "publish_n(2),close || consume() x || consume(2)",
    "publish ; subscribe afterwards || publish,close",
    "126 items pre-published: publish_n(3),close straddling the 128-slot block || consume(3) from 126",
    "two cycles: publish,close / clear / publish,publish,close with a consumer per cycle",
    "close racing with the wake-up of the last publish: publish,close || sleeping consume(2)",
    "publish_n(2) || publish ; close || consume(3)",
    "126 items pre-published: publish,close || consume(3) from 126: the end marker lies in the first block of a range that straddles the 128-slot block",
};
int harness_configs() { return sizeof(names) / sizeof(names[0]); }
const char* harness_config_name(int c) { return names[c]; }
const char* harness_name() { return "mc_topic"; }

static void scope_slots(Topic& t, size_t from, size_t to) {
  t._slots.reserve(to);  // (Topic::reserve is declared but not defined in this snapshot)
  for (size_t i = from; i < to; i++) bbmc::race_scope(&t._slots[i].value, sizeof(Item));
}
static void pub(Topic& t, int v) { t.publish(Item{v, ~v}); }
static void pub_n(Topic& t, int base, int n) {
  t.publish_n(n, [&](Topic::Iterator b, Topic::Iterator e) { for (; b != e; ++b) { b->v = base; b->chk = ~base; base++; } });
}
struct Got { int v[8]; int n = 0; bool ended = false; };
static void take(Got& g, const Item* it) {
  bbmc::check(it->chk == ~it->v, "consumer saw a partially written item");
  bbmc::require(g.n < 8, "too many items");
  g.v[g.n++] = it->v;
}
// consume one by one until the end marker
static void drain(Topic::Consumer c, Got& g) { while (auto* it = c.consume()) take(g, it); g.ended = true; }
static void expect_exact(const Got& g, std::initializer_list<int> want) {
  bbmc::check(g.ended, "consumer did not reach the end marker");
  bbmc::check(g.n == (int)want.size(), g.n < (int)want.size() ? "a consumer missed a published item" : "a consumer received an item twice or an invented one");
  int i = 0; for (int w : want) { bbmc::check(g.v[i] == w, "items were not delivered in publication-index order"); i++; }
}
// order between concurrent publishers is free; per-publisher order and the multiset are not
static void expect_merge(const Got& g, std::vector<std::vector<int>> pubs) {
  bbmc::check(g.ended, "consumer did not reach the end marker");
  size_t total = 0; for (auto& p : pubs) total += p.size();
  bbmc::check((size_t)g.n == total, (size_t)g.n < total ? "a consumer missed a published item" : "a consumer received an item twice or an invented one");
  std::vector<size_t> pos(pubs.size(), 0);
  for (int i = 0; i < g.n; i++) {
    bool ok = false;
    for (size_t p = 0; p < pubs.size(); p++) if (pos[p] < pubs[p].size() && pubs[p][pos[p]] == g.v[i]) { pos[p]++; ok = true; break; }
    bbmc::check(ok, "delivery order contradicts the order in which one publisher published (or concurrent publishers shared a slot)");
  }
}

void harness_main(int cfg) {
  Topic t;
  std::vector<std::thread> ts;
  Got g1, g2;
  switch (cfg) {
    case 0:
      scope_slots(t, 0, 3);
      ts.emplace_back([&] { pub(t, 1); pub(t, 2); t.close(); });
      ts.emplace_back([&] { drain(t.subscribe(), g1); });
      for (auto& x : ts) x.join();
      expect_exact(g1, {1, 2});
      break;
    case 1: {
      scope_slots(t, 0, 3);
      std::thread p1([&] { pub(t, 10); }), p2([&] { pub(t, 20); });
      std::thread c([&] { auto cs = t.subscribe(); auto r = cs.consume(2); bbmc::check(r.size() == 2, "consume(2) returned short although the topic was not closed"); for (size_t i = 0; i < r.size(); i++) take(g1, &r[i]); bbmc::check(cs.consume() == nullptr, "no end marker after close"); g1.ended = true; });
      p1.join(); p2.join(); t.close(); c.join();
      expect_merge(g1, {{10}, {20}});
      break;
    }
    case 2:
      scope_slots(t, 0, 3);
      ts.emplace_back([&] { pub_n(t, 1, 2); t.close(); });
      ts.emplace_back([&] { drain(t.subscribe(), g1); });
      ts.emplace_back([&] { auto cs = t.subscribe(); auto r = cs.consume(2); for (size_t i = 0; i < r.size(); i++) take(g2, &r[i]); bbmc::check(r.size() == 2, "consume(2) came up short before close although two items were published"); bbmc::check(cs.consume() == nullptr, "no end marker after close"); g2.ended = true; });
      for (auto& x : ts) x.join();
      expect_exact(g1, {1, 2}); expect_exact(g2, {1, 2});
      break;
    case 3: {
      scope_slots(t, 0, 3);
      pub(t, 1);
      auto cs = t.subscribe();
      ts.emplace_back([&] { pub(t, 2); t.close(); });
      ts.emplace_back([&] { drain(cs, g1); });
      for (auto& x : ts) x.join();
      expect_exact(g1, {1, 2});
      break;
    }
    case 4: {
      bbmc::quiet();
      for (int i = 0; i < 126; i++) pub(t, 1000 + i);
      auto cs = t.subscribe(); { auto r = cs.consume(126); bbmc::require(r.size() == 126, "prefill"); }
      scope_slots(t, 126, 130);
      bbmc::explore_begin();
      ts.emplace_back([&] { pub_n(t, 1, 3); t.close(); });
      ts.emplace_back([&] { auto r = cs.consume(3); bbmc::check(r.size() == 3, "consume(3) across the block boundary came up short"); for (size_t i = 0; i < r.size(); i++) take(g1, &r[i]); bbmc::check(cs.consume() == nullptr, "no end marker"); g1.ended = true; });
      for (auto& x : ts) x.join();
      expect_exact(g1, {1, 2, 3});
      break;
    }
    case 8: {
      bbmc::quiet();
      for (int i = 0; i < 126; i++) pub(t, 1000 + i);
      auto cs = t.subscribe(); { auto r = cs.consume(126); bbmc::require(r.size() == 126, "prefill"); }
      scope_slots(t, 126, 130);
      bbmc::explore_begin();
      ts.emplace_back([&] { pub(t, 1); t.close(); });   // item in slot 126, end marker in slot 127
      ts.emplace_back([&] { auto r = cs.consume(3); bbmc::check(r.size() == 1, "consume(3) must return the single item that precedes the end marker"); for (size_t i = 0; i < r.size(); i++) take(g1, &r[i]); bbmc::check(cs.consume() == nullptr, "no end marker"); g1.ended = true; });
      for (auto& x : ts) x.join();
      expect_exact(g1, {1});
      break;
    }
    case 5: {
      scope_slots(t, 0, 3);
      { std::thread p([&] { pub(t, 1); t.close(); }), c([&] { drain(t.subscribe(), g1); }); p.join(); c.join(); expect_exact(g1, {1}); }
      t.clear();
      { std::thread p([&] { pub(t, 7); pub(t, 8); t.close(); }), c([&] { drain(t.subscribe(), g2); }); p.join(); c.join(); expect_exact(g2, {7, 8}); }
      break;
    }
    case 6:
      scope_slots(t, 0, 2);
      ts.emplace_back([&] { pub(t, 5); t.close(); });
      ts.emplace_back([&] { auto cs = t.subscribe(); auto r = cs.consume(2); for (size_t i = 0; i < r.size(); i++) take(g1, &r[i]); bbmc::check(r.size() == 1, "consume(2) must return the single item once the topic is closed"); g1.ended = (cs.consume() == nullptr); });
      for (auto& x : ts) x.join();
      expect_exact(g1, {5});
      break;
    case 7: {
      scope_slots(t, 0, 4);
      std::thread p1([&] { pub_n(t, 10, 2); }), p2([&] { pub(t, 20); });
      std::thread c([&] { auto cs = t.subscribe(); auto r = cs.consume(3); bbmc::check(r.size() == 3, "consume(3) returned short"); for (size_t i = 0; i < r.size(); i++) take(g1, &r[i]); bbmc::check(cs.consume() == nullptr, "no end marker after close"); g1.ended = true; });
      p1.join(); p2.join(); t.close(); c.join();
      expect_merge(g1, {{10, 11}, {20}});
      break;
    }
  }
}
