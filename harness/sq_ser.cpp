// sq_ser.cpp — C11: serialization. Exhaustive enumeration over value alphabets (round trip, exact size, every way of
// presenting the bytes), protobuf wire compatibility of BABYLON_COMPATIBLE structures, and ALL byte strings up to a
// length bound (hostile input) for a set of target types. ASan+UBSan build; each shard runs in a forked child.
#include <google/protobuf/io/coded_stream.h>
#include <google/protobuf/io/zero_copy_stream_impl_lite.h>
#include <sys/mman.h>
#include <sys/wait.h>
#include <unistd.h>

#include <algorithm>
#include <chrono>
#include <cmath>
#include <cstring>
#include <functional>
#include <limits>
#include <list>
#include <memory>
#include <string>
#include <unordered_map>
#include <unordered_set>
#include <vector>

#include "arena_example.pb.h"
#include "babylon/serialization.h"

using babylon::Serialization;
using babylon::TestMessage;
using google::protobuf::io::ArrayInputStream;
using google::protobuf::io::CodedInputStream;

static double now_s() { return std::chrono::duration<double>(std::chrono::steady_clock::now().time_since_epoch()).count(); }

// ---- shared result area (survives a sanitizer abort of a shard) ---------------------------------------------------
struct SharedArea { volatile uint64_t values, parses, hostile, hostile_ok; volatile int nviol; char viol[16][600]; volatile int inflight_len; volatile unsigned char inflight[64]; char inflight_what[128]; char sample[4][300]; volatile int nsample; };
static SharedArea* SA;
static void violation(const std::string& m) { int i = SA->nviol; if (i < 16) { snprintf(SA->viol[i], sizeof SA->viol[i], "%s", m.c_str()); SA->nviol = i + 1; } }
static std::string hex(const std::string& s) { static const char* d = "0123456789abcdef"; std::string o; for (unsigned char c : s) { o += d[c >> 4]; o += d[c & 15]; } return o; }
static void sample(const std::string& s) { int i = SA->nsample; if (i < 4) { snprintf(SA->sample[i], sizeof SA->sample[i], "%s", s.c_str()); SA->nsample = i + 1; } }

// ---- types under test ----------------------------------------------------------------------------------------------------
enum class Color : int { RED = 1, GREEN = 2 };
struct Plain { int32_t a {0}; std::string s; std::vector<int32_t> v; bool operator==(const Plain& o) const { return a == o.a && s == o.s && v == o.v; } BABYLON_SERIALIZABLE(a, s, v) };
struct Compat { int32_t a {0}; std::string s; std::vector<int64_t> v; std::unique_ptr<int32_t> p; bool operator==(const Compat& o) const { return a == o.a && s == o.s && v == o.v && (!p == !o.p) && (!p || *p == *o.p); } BABYLON_COMPATIBLE((a, 1)(s, 2)(v, 3)(p, 4)) };
struct Base { int32_t x {0}; std::string y; bool operator==(const Base& o) const { return x == o.x && y == o.y; } BABYLON_COMPATIBLE((x, 1)(y, 2)) };
struct Derived : public Base { int64_t z {0}; bool operator==(const Derived& o) const { return Base::operator==(o) && z == o.z; } BABYLON_COMPATIBLE_WITH_BASE((Base, 1), (z, 2)) };
struct Big { int32_t m0 {0}, m1 {0}, m2 {0}, m3 {0}, m4 {0}, m5 {0}, m6 {0}, m7 {0}, m8 {0}, m9 {0}; std::string m10; Plain m11;
  bool operator==(const Big& o) const { return m0 == o.m0 && m1 == o.m1 && m2 == o.m2 && m3 == o.m3 && m4 == o.m4 && m5 == o.m5 && m6 == o.m6 && m7 == o.m7 && m8 == o.m8 && m9 == o.m9 && m10 == o.m10 && m11 == o.m11; }
  BABYLON_COMPATIBLE((m0, 1)(m1, 2)(m2, 3)(m3, 4)(m4, 5)(m5, 6)(m6, 7)(m7, 8)(m8, 9)(m9, 10)(m10, 11)(m11, 12)) };
struct Nested { Compat c; std::vector<Plain> ps; std::unique_ptr<Base> b; bool operator==(const Nested& o) const { return c == o.c && ps == o.ps && (!b == !o.b) && (!b || *b == *o.b); } BABYLON_COMPATIBLE((c, 1)(ps, 2)(b, 3)) };
// mirror of the documented protobuf-compatible field kinds (docs/serialization.en.md, test/proto TestMessage)
struct Wire {
  bool b {false}; int32_t i32 {0}; int64_t i64 {0}; uint32_t u32 {0}; uint64_t u64 {0}; float f {0}; double d {0}; babylon::TestEnum e {babylon::E1}; std::string s; std::string by;
  std::vector<bool> rpb; std::vector<int32_t> rpi32; std::vector<int64_t> rpi64; std::vector<uint32_t> rpu32; std::vector<uint64_t> rpu64; std::vector<float> rpf; std::vector<double> rpd; std::vector<babylon::TestEnum> rpe;
  BABYLON_COMPATIBLE((b, 1)(i32, 4)(i64, 5)(u32, 8)(u64, 9)(f, 16)(d, 17)(e, 18)(s, 19)(by, 20)(rpb, 44)(rpi32, 47)(rpi64, 48)(rpu32, 51)(rpu64, 52)(rpf, 59)(rpd, 60)(rpe, 61))
};

template <class T> static bool feq(T a, T b) { return a == b || (std::isnan(a) && std::isnan(b)); }
template <class T> struct Eq { static bool eq(const T& a, const T& b) { return a == b; } };
template <> struct Eq<float> { static bool eq(float a, float b) { return feq(a, b) && std::signbit(a) == std::signbit(b); } };
template <> struct Eq<double> { static bool eq(double a, double b) { return feq(a, b) && std::signbit(a) == std::signbit(b); } };
template <class T> struct Eq<std::vector<T>> { static bool eq(const std::vector<T>& a, const std::vector<T>& b) { if (a.size() != b.size()) return false; for (size_t i = 0; i < a.size(); i++) if (!Eq<T>::eq(a[i], b[i])) return false; return true; } };
template <> struct Eq<std::vector<bool>> { static bool eq(const std::vector<bool>& a, const std::vector<bool>& b) { return a == b; } };
template <class T> struct Eq<std::unique_ptr<T>> { static bool eq(const std::unique_ptr<T>& a, const std::unique_ptr<T>& b) { return (!a == !b) && (!a || Eq<T>::eq(*a, *b)); } };
template <> struct Eq<Wire> { static bool eq(const Wire& a, const Wire& b) { std::string x, y; Serialization::serialize_to_string(a, x); Serialization::serialize_to_string(b, y); return x == y; } };
template <> struct Eq<TestMessage> { static bool eq(const TestMessage& a, const TestMessage& b) { return a.SerializeAsString() == b.SerializeAsString(); } };
template <class T> struct Eq<std::list<T>> { static bool eq(const std::list<T>& a, const std::list<T>& b) { return a == b; } };
template <class T> struct Eq<std::shared_ptr<T>> { static bool eq(const std::shared_ptr<T>& a, const std::shared_ptr<T>& b) { return (!a == !b) && (!a || Eq<T>::eq(*a, *b)); } };

// every way of presenting the bytes
template <class T> static bool parse_presented(const std::string& s, int how, T& out) {
  switch (how) {
    case 0: return Serialization::parse_from_string(s, out);
    case 1: return Serialization::parse_from_array(s.data(), s.size(), out);
    default: {
      static const int blocks[] = {1, 2, 3, 7}; int block = blocks[(how - 2) % 4]; bool limit = (how - 2) >= 4;
      ArrayInputStream ais(s.data(), (int)s.size(), block); CodedInputStream cis(&ais);
      if (limit) { auto l = cis.PushLimit((int)s.size()); bool ok = Serialization::parse_from_coded_stream(cis, out); cis.PopLimit(l); return ok; }
      return Serialization::parse_from_coded_stream(cis, out);
    }
  }
}
static const int NPRESENT = 10;
static const char* present_name(int how) { static const char* n[] = {"parse_from_string", "parse_from_array", "coded stream, 1-byte chunks", "coded stream, 2-byte chunks", "coded stream, 3-byte chunks", "coded stream, 7-byte chunks", "coded stream, 1-byte chunks inside a limit", "coded stream, 2-byte chunks inside a limit", "coded stream, 3-byte chunks inside a limit", "coded stream, 7-byte chunks inside a limit"}; return n[how]; }

// a smart pointer to a value whose encoding is empty reads back as null (stated by the property)
template <class T> struct Expect { static const T& of(const T& v) { return v; } };

template <class T, class MK>
static void round_trip(const char* tname, const T& v, MK fresh, const std::function<bool(const T&, const T&)>& eq = [](const T& a, const T& b) { return Eq<T>::eq(a, b); }) {
  SA->values++;
  std::string s;
  if (!Serialization::serialize_to_string(v, s)) { violation(std::string(tname) + ": serialize_to_string failed"); return; }
  size_t predicted = Serialization::calculate_serialized_size(v);
  if (predicted != s.size()) { violation(std::string(tname) + ": calculate_serialized_size = " + std::to_string(predicted) + " but " + std::to_string(s.size()) + " bytes were produced (value bytes " + hex(s) + ")"); return; }
  for (int how = 0; how < NPRESENT; how++) {
    SA->parses++;
    T out = fresh();
    bool ok = parse_presented(s, how, out);
    if (!ok) { violation(std::string(tname) + ": parsing its own serialization failed via " + present_name(how) + " (bytes " + hex(s) + ")"); return; }
    if (!eq(v, out)) { violation(std::string(tname) + ": round trip via " + present_name(how) + " yields a different value (bytes " + hex(s) + ")"); return; }
  }
  if (SA->nsample < 4 && s.size() > 3) sample(std::string(tname) + " -> " + hex(s));
}
template <class T> static void rt(const char* tname, const T& v) { round_trip<T>(tname, v, [] { return T(); }); }

template <class I> static std::vector<I> int_alphabet() { typedef std::numeric_limits<I> L; std::vector<I> v = {L::min(), (I)0, (I)1, (I)127, L::max()}; if (L::is_signed) v.push_back((I)-1); if (sizeof(I) > 1) v.push_back((I)128); return v; }

static void part_values() {
  for (bool b : {false, true}) rt("bool", b);
  for (auto x : int_alphabet<int8_t>()) rt("int8_t", x); for (auto x : int_alphabet<int16_t>()) rt("int16_t", x); for (auto x : int_alphabet<int32_t>()) rt("int32_t", x); for (auto x : int_alphabet<int64_t>()) rt("int64_t", x);
  for (auto x : int_alphabet<uint8_t>()) rt("uint8_t", x); for (auto x : int_alphabet<uint16_t>()) rt("uint16_t", x); for (auto x : int_alphabet<uint32_t>()) rt("uint32_t", x); for (auto x : int_alphabet<uint64_t>()) rt("uint64_t", x);
  std::vector<float> fs = {0.0f, -0.0f, 1.0f, NAN, INFINITY, -INFINITY, std::numeric_limits<float>::denorm_min(), std::numeric_limits<float>::max()};
  std::vector<double> ds = {0.0, -0.0, 1.0, NAN, INFINITY, -INFINITY, std::numeric_limits<double>::denorm_min(), std::numeric_limits<double>::lowest()};
  for (auto x : fs) rt("float", x); for (auto x : ds) rt("double", x);
  for (int c : {1, 2, 0, -1, 1000}) rt("enum class", (Color)c);
  std::string all256; for (int i = 0; i < 256; i++) all256.push_back((char)i);
  std::vector<std::string> strs = {"", "a", all256, std::string(200, 'x'), std::string("\0\0", 2)};
  for (auto& x : strs) rt("std::string", x);
  // containers of sizes 0..3
  for (size_t n = 0; n <= 3; n++) {
    std::vector<int32_t> vi; std::vector<bool> vb; std::vector<std::string> vs; std::vector<double> vd; std::vector<float> vf; std::vector<uint64_t> vu; std::list<int32_t> li; std::unordered_set<int32_t> us; std::unordered_map<int32_t, std::string> um; std::vector<Plain> vp; std::vector<std::vector<int32_t>> vv;
    auto ia = int_alphabet<int32_t>(); auto ua = int_alphabet<uint64_t>();
    for (size_t i = 0; i < n; i++) { vi.push_back(ia[(i * 3 + n) % ia.size()]); vb.push_back(i % 2 == 0); vs.push_back(strs[(i + n) % strs.size()]); vd.push_back(ds[(i + n) % ds.size()]); vf.push_back(fs[(i + n) % fs.size()]); vu.push_back(ua[(i + n) % ua.size()]); li.push_back((int)i - 1); us.insert((int)i * 100 - 1); um[(int)i - 1] = strs[i % strs.size()]; Plain p; p.a = (int)i; p.s = strs[i % 3]; p.v = vi; vp.push_back(p); vv.push_back(vi); }
    rt("std::vector<int32_t>", vi); rt("std::vector<bool>", vb); rt("std::vector<std::string>", vs); rt("std::vector<double>", vd); rt("std::vector<float>", vf); rt("std::vector<uint64_t>", vu); rt("std::list<int32_t>", li); rt("std::unordered_set<int32_t>", us); rt("std::unordered_map<int32_t,string>", um); rt("std::vector<Plain>", vp); rt("std::vector<std::vector<int32_t>>", vv);
  }
  // smart pointers: null, value with empty encoding (reads back as null), value
  typedef std::unique_ptr<int32_t> UI; typedef std::unique_ptr<std::string> US; typedef std::shared_ptr<std::string> SS;
  auto up_eq_i = [](const UI& a, const UI& b) { bool ea = !a || Serialization::calculate_serialized_size(*a) == 0, eb = !b; if (ea) return eb; return (bool)b && *a == *b; };
  auto up_eq_s = [](const US& a, const US& b) { bool ea = !a || a->empty(), eb = !b; if (ea) return eb; return (bool)b && *a == *b; };
  auto sp_eq_s = [](const SS& a, const SS& b) { bool ea = !a || a->empty(), eb = !b; if (ea) return eb; return (bool)b && *a == *b; };
  round_trip<UI>("std::unique_ptr<int32_t>", UI(), [] { return UI(); }, up_eq_i); round_trip<UI>("std::unique_ptr<int32_t>", UI(new int32_t(0)), [] { return UI(); }, up_eq_i); round_trip<UI>("std::unique_ptr<int32_t>", UI(new int32_t(-7)), [] { return UI(); }, up_eq_i);
  round_trip<US>("std::unique_ptr<std::string>", US(), [] { return US(); }, up_eq_s); round_trip<US>("std::unique_ptr<std::string>", US(new std::string()), [] { return US(); }, up_eq_s); round_trip<US>("std::unique_ptr<std::string>", US(new std::string("abc")), [] { return US(); }, up_eq_s);
  round_trip<SS>("std::shared_ptr<std::string>", SS(), [] { return SS(); }, sp_eq_s); round_trip<SS>("std::shared_ptr<std::string>", std::make_shared<std::string>(), [] { return SS(); }, sp_eq_s); round_trip<SS>("std::shared_ptr<std::string>", std::make_shared<std::string>("xyz"), [] { return SS(); }, sp_eq_s);
  // aggregates
  for (int a : {0, -1, 300}) for (auto& s : {std::string(), std::string("hi")}) for (size_t n : {0u, 2u}) {
    Plain p; p.a = a; p.s = s; p.v.assign(n, a); rt("Plain (BABYLON_SERIALIZABLE)", p);
    Compat c; c.a = a; c.s = s; c.v.assign(n, (int64_t)a << 33); if (n) c.p.reset(new int32_t(a)); rt("Compat (BABYLON_COMPATIBLE)", c);
    Derived d; d.x = a; d.y = s; d.z = (int64_t)n - 1; rt("Derived (with base)", d);
    Big g; g.m0 = a; g.m5 = (int)n; g.m9 = -a; g.m10 = s; g.m11 = p; rt("Big (12 members, cached sizes)", g);
    Nested ne; ne.c.a = a; ne.c.s = s; ne.ps.assign(n, p); if (a) { ne.b.reset(new Base); ne.b->x = a; ne.b->y = s; } rt("Nested", ne);
    TestMessage m; if (a) m.set_i32(a); if (!s.empty()) m.set_s(s); for (size_t i = 0; i < n; i++) m.add_rpi64(a); {
      SA->values++; std::string bytes; Serialization::serialize_to_string(m, bytes);
      if (Serialization::calculate_serialized_size(m) != bytes.size()) violation("protobuf message: predicted size differs from bytes produced");
      for (int how = 0; how < NPRESENT; how++) { SA->parses++; TestMessage o; if (!parse_presented(bytes, how, o) || o.SerializeAsString() != m.SerializeAsString()) { violation(std::string("protobuf message member: round trip failed via ") + present_name(how)); break; } }
    }
  }
}

// ---- an object is serialised, modified and serialised again: the second result must be that of a fresh object -----------------
// (per-field size caches live inside the object; every ordered pair of the aggregate value alphabet is tried)
static void assign_params(Plain& p, int a, const std::string& s, size_t n) { p.a = a; p.s = s; p.v.assign(n, a); }
static void assign_params(Compat& c, int a, const std::string& s, size_t n) { c.a = a; c.s = s; c.v.assign(n, (int64_t)a << 33); if (n) c.p.reset(new int32_t(a)); else c.p.reset(); }
static void assign_params(Derived& d, int a, const std::string& s, size_t n) { d.x = a; d.y = s; d.z = (int64_t)n - 1; }
static void assign_params(Big& g, int a, const std::string& s, size_t n) { g.m0 = a; g.m5 = (int)n; g.m9 = -a; g.m10 = s; assign_params(g.m11, a, s, n); }
static void assign_params(Nested& ne, int a, const std::string& s, size_t n) { ne.c.a = a; ne.c.s = s; Plain p; assign_params(p, a, s, n); ne.ps.assign(n, p); if (a) { ne.b.reset(new Base); ne.b->x = a; ne.b->y = s; } else ne.b.reset(); }
template <class T> static void reuse_pairs(const char* tname) {
  struct P { int a; std::string s; size_t n; }; std::vector<P> ps;
  for (int a : {0, -1, 300}) for (auto& s : {std::string(), std::string("hi")}) for (size_t n : {0u, 2u}) ps.push_back({a, s, n});
  for (auto& p1 : ps) for (auto& p2 : ps) {
    SA->values++;
    T obj; assign_params(obj, p1.a, p1.s, p1.n);
    std::string first, second, want;
    if (!Serialization::serialize_to_string(obj, first)) { violation(std::string(tname) + ": serialize_to_string failed"); return; }
    assign_params(obj, p2.a, p2.s, p2.n);
    if (!Serialization::serialize_to_string(obj, second)) { violation(std::string(tname) + ": serialising a modified object failed"); return; }
    T fresh; assign_params(fresh, p2.a, p2.s, p2.n); Serialization::serialize_to_string(fresh, want);
    if (second != want) { violation(std::string(tname) + ": an object that was serialised, modified and serialised again produced " + hex(second) + " but a fresh object with the same value produces " + hex(want) + " (first serialisation: " + hex(first) + ")"); return; }
    if (Serialization::calculate_serialized_size(obj) != second.size()) { violation(std::string(tname) + ": calculate_serialized_size of a re-used object differs from the bytes produced"); return; }
  }
}
static void part_reuse() {
  reuse_pairs<Plain>("Plain (BABYLON_SERIALIZABLE)"); reuse_pairs<Compat>("Compat (BABYLON_COMPATIBLE)"); reuse_pairs<Derived>("Derived (with base)");
  reuse_pairs<Big>("Big (12 members, cached sizes)"); reuse_pairs<Nested>("Nested");
}

// ---- protobuf wire compatibility of the documented field kinds -------------------------------------------------------------------
static void fill(Wire& w, TestMessage& m, int k) {
  static const int32_t i32s[] = {0, 1, -1, INT32_MIN, INT32_MAX}; static const int64_t i64s[] = {0, 1, -1, INT64_MIN, INT64_MAX}; static const uint64_t u64s[] = {0, 1, 127, 128, UINT64_MAX};
  static const double dbls[] = {0, 1.5, -0.0, INFINITY, 1e300};
  w = Wire(); m.Clear();
  int a = k % 5, b = (k / 5) % 5, c = (k / 25) % 4;
  w.b = a & 1; w.i32 = i32s[a]; w.i64 = i64s[b]; w.u32 = (uint32_t)u64s[a]; w.u64 = u64s[b]; w.f = (float)dbls[a]; w.d = dbls[b]; w.e = (c & 1) ? babylon::E2 : babylon::E1; w.s = c ? std::string((size_t)c, 's') : ""; w.by = (c & 2) ? std::string("\0\xff", 2) : "";
  for (int i = 0; i < c; i++) { w.rpb.push_back(i & 1); w.rpi32.push_back(i32s[(a + i) % 5]); w.rpi64.push_back(i64s[(b + i) % 5]); w.rpu32.push_back((uint32_t)u64s[(a + i) % 5]); w.rpu64.push_back(u64s[(b + i) % 5]); w.rpf.push_back((float)dbls[(a + i) % 5]); w.rpd.push_back(dbls[(b + i) % 5]); w.rpe.push_back((i & 1) ? babylon::E2 : babylon::E1); }
  m.set_b(w.b); m.set_i32(w.i32); m.set_i64(w.i64); m.set_u32(w.u32); m.set_u64(w.u64); m.set_f(w.f); m.set_d(w.d); m.set_e(w.e); m.set_s(w.s); m.set_by(w.by);
  for (auto x : w.rpb) m.add_rpb(x); for (auto x : w.rpi32) m.add_rpi32(x); for (auto x : w.rpi64) m.add_rpi64(x); for (auto x : w.rpu32) m.add_rpu32(x); for (auto x : w.rpu64) m.add_rpu64(x); for (auto x : w.rpf) m.add_rpf(x); for (auto x : w.rpd) m.add_rpd(x); for (auto x : w.rpe) m.add_rpe(x);
}
static bool same(const Wire& w, const TestMessage& m) {
  if (w.b != m.b() || w.i32 != m.i32() || w.i64 != m.i64() || w.u32 != m.u32() || w.u64 != m.u64() || !Eq<float>::eq(w.f, m.f()) || !Eq<double>::eq(w.d, m.d()) || w.e != m.e() || w.s != m.s() || w.by != m.by()) return false;
  if ((int)w.rpb.size() != m.rpb_size() || (int)w.rpi32.size() != m.rpi32_size() || (int)w.rpi64.size() != m.rpi64_size() || (int)w.rpu32.size() != m.rpu32_size() || (int)w.rpu64.size() != m.rpu64_size() || (int)w.rpf.size() != m.rpf_size() || (int)w.rpd.size() != m.rpd_size() || (int)w.rpe.size() != m.rpe_size()) return false;
  for (int i = 0; i < m.rpb_size(); i++) if (w.rpb[i] != m.rpb(i) || w.rpi32[i] != m.rpi32(i) || w.rpi64[i] != m.rpi64(i) || w.rpu32[i] != m.rpu32(i) || w.rpu64[i] != m.rpu64(i) || !Eq<float>::eq(w.rpf[i], m.rpf(i)) || !Eq<double>::eq(w.rpd[i], m.rpd(i)) || w.rpe[i] != m.rpe(i)) return false;
  return true;
}
static void part_compat() {
  for (int k = 0; k < 100; k++) {
    Wire w; TestMessage m; fill(w, m, k); SA->values++;
    std::string from_struct, from_msg; Serialization::serialize_to_string(w, from_struct); m.SerializeToString(&from_msg);
    TestMessage m2; if (!m2.ParseFromString(from_struct) || !same(w, m2)) { violation("protobuf cannot read the bytes of the BABYLON_COMPATIBLE structure back to the same values (tuple " + std::to_string(k) + ", bytes " + hex(from_struct) + ")"); return; }
    for (int how = 0; how < NPRESENT; how++) { SA->parses++; Wire w2; if (!parse_presented(from_msg, how, w2) || !same(w2, m)) { violation(std::string("the structure cannot read protobuf's bytes to the same values via ") + present_name(how) + " (tuple " + std::to_string(k) + ", bytes " + hex(from_msg) + ")"); return; } }
    // field order does not matter: single-field messages concatenated in several orders
    TestMessage a, b, c, d; a.set_i32(w.i32); b.set_s(w.s.empty() ? "q" : w.s); for (auto x : w.rpi64) c.add_rpi64(x); d.set_d(w.d);
    std::string parts[4] = {a.SerializeAsString(), b.SerializeAsString(), c.SerializeAsString(), d.SerializeAsString()};
    int perm[4] = {0, 1, 2, 3};
    do {
      std::string bytes; for (int i : perm) bytes += parts[i];
      // unknown fields of every wire type at every position are skipped
      static const std::string unknown[] = {std::string("\xf8\x3f\x05", 3) /* field 1023 varint */, std::string("\xf9\x3f\x01\x02\x03\x04\x05\x06\x07\x08", 10) /* fixed64 */, std::string("\xfa\x3f\x02zz", 5) /* length delimited */, std::string("\xfd\x3f\x01\x02\x03\x04", 6) /* fixed32 */};
      for (int u = 0; u < 5; u++) for (int at = 0; at <= 4; at++) {
        if (u == 4 && at > 0) continue;
        std::string with; for (int i = 0; i < 4; i++) { if (u < 4 && at == i) with += unknown[u]; with += parts[perm[i]]; } if (u < 4 && at == 4) with += unknown[u];
        SA->parses++; Wire w2; w2.u64 = 77; w2.rpd = {9.0};   // absent fields keep what they had
        if (!Serialization::parse_from_string(with, w2)) { violation("structure rejects protobuf bytes with permuted fields / unknown fields: " + hex(with)); return; }
        if (w2.i32 != w.i32 || w2.s != (w.s.empty() ? "q" : w.s) || w2.rpi64 != w.rpi64 || !Eq<double>::eq(w2.d, w.d)) { violation("permuted field order or an unknown field changed the parsed values: " + hex(with)); return; }
        if (w2.u64 != 77 || w2.rpd != std::vector<double>{9.0} || w2.b != false) { violation("a field absent from the input did not keep its value: " + hex(with)); return; }
      }
    } while (std::next_permutation(perm, perm + 4));
  }
}

// ---- hostile input: ALL byte strings up to a length over an alphabet --------------------------------------------------------------------
template <class T, class MK> static void hostile_one(const char* tname, const std::string& in, MK fresh) {
  SA->hostile++;
  for (int how : {0, 2, 8}) {
    T v = fresh();
    bool ok = parse_presented(in, how, v);
    if (!ok) continue;
    SA->hostile_ok++;
    // whenever parsing reports success the result serialises and parses back to itself, and a second round is a fixed point
    std::string s1; if (!Serialization::serialize_to_string(v, s1)) { violation(std::string(tname) + ": value accepted from input " + hex(in) + " cannot be serialised"); return; }
    if (Serialization::calculate_serialized_size(v) != s1.size()) { violation(std::string(tname) + ": predicted size wrong for the value accepted from input " + hex(in)); return; }
    T v2 = fresh(); if (!Serialization::parse_from_string(s1, v2)) { violation(std::string(tname) + ": value accepted from input " + hex(in) + " serialises to " + hex(s1) + " which does not parse"); return; }
    if (!Eq<T>::eq(v, v2)) { violation(std::string(tname) + ": the value accepted from input " + hex(in) + " does not parse back to itself (its serialisation is " + hex(s1) + ")"); return; }
    std::string s2; Serialization::serialize_to_string(v2, s2);
    T v3 = fresh(); if (!Serialization::parse_from_string(s2, v3) || !Eq<T>::eq(v2, v3)) { violation(std::string(tname) + ": second round trip of the value accepted from input " + hex(in) + " is not a fixed point (" + hex(s1) + " vs " + hex(s2) + ")"); return; }
  }
}
template <class T, class MK> static void hostile_all(const char* tname, const std::vector<unsigned char>& alphabet, int maxlen, MK fresh, double deadline) {
  snprintf(SA->inflight_what, sizeof SA->inflight_what, "%s", tname);
  std::string in;
  std::function<void(int)> rec = [&](int depth) {
    if (SA->nviol >= 12 || now_s() > deadline) return;
    SA->inflight_len = (int)in.size(); for (size_t i = 0; i < in.size() && i < 64; i++) SA->inflight[i] = (unsigned char)in[i];
    hostile_one<T>(tname, in, fresh);
    if (depth == maxlen) return;
    for (unsigned char c : alphabet) { in.push_back((char)c); rec(depth + 1); in.pop_back(); }
  };
  rec(0);
  SA->inflight_len = -1;
}

int main(int argc, char** argv) {
  int full_len = 2, reduced_len = 5; double budget = 300; std::string out, rdir = ".";
  for (int i = 1; i < argc; i++) { std::string a = argv[i]; auto val = [&] { return std::string(i + 1 < argc ? argv[++i] : ""); };
    if (a == "--full-len") full_len = atoi(val().c_str()); else if (a == "--reduced-len") reduced_len = atoi(val().c_str()); else if (a == "--budget-s") budget = atof(val().c_str()); else if (a == "--out") out = val(); else if (a == "--replay-dir") rdir = val(); else if (a == "--replay") { printf("replay: re-run the harness; the failing input is printed in the violation message\n"); return 0; } }
  double t0 = now_s(), deadline = t0 + budget;
  SA = (SharedArea*)mmap(nullptr, sizeof(SharedArea), PROT_READ | PROT_WRITE, MAP_SHARED | MAP_ANONYMOUS, -1, 0); memset((void*)SA, 0, sizeof *SA); SA->inflight_len = -1;
  std::vector<unsigned char> all; for (int i = 0; i < 256; i++) all.push_back((unsigned char)i);
  // per-schema alphabet: tags of fields 1..4 with all wire types, length bytes inside / at / past the end, varint continuation bytes
  std::vector<unsigned char> reduced = {0x00, 0x01, 0x02, 0x03, 0x05, 0x7f, 0x80, 0xff, 0x08, 0x0a, 0x0d, 0x10, 0x12, 0x1a, 0x22, 0x09};
  struct Shard { const char* name; std::function<void()> run; };
  std::vector<Shard> shards = {
    {"value alphabets: round trip, exact size, all presentations", [] { part_values(); }},
    {"protobuf wire compatibility", [] { part_compat(); }},
    {"objects serialised, modified and serialised again (all ordered pairs of aggregate values)", [] { part_reuse(); }},
  };
#define HOSTILE(T, NAME) \
  shards.push_back({"hostile input -> " NAME " (all bytes)", [&] { hostile_all<T>(NAME, all, full_len, [] { return T(); }, deadline); }}); \
  shards.push_back({"hostile input -> " NAME " (schema alphabet)", [&] { hostile_all<T>(NAME, reduced, reduced_len, [] { return T(); }, deadline); }});
  HOSTILE(Compat, "Compat") HOSTILE(Plain, "Plain") HOSTILE(Nested, "Nested") HOSTILE(Big, "Big") HOSTILE(Derived, "Derived") HOSTILE(Wire, "Wire")
  HOSTILE(std::vector<int32_t>, "std::vector<int32_t>") HOSTILE(std::vector<std::string>, "std::vector<std::string>") HOSTILE(std::vector<double>, "std::vector<double>") HOSTILE(std::vector<bool>, "std::vector<bool>")
  typedef std::unordered_map<int32_t, std::string> UM; typedef std::unique_ptr<Compat> UC;
  HOSTILE(UM, "std::unordered_map<int32_t,std::string>") HOSTILE(std::list<int32_t>, "std::list<int32_t>") HOSTILE(std::string, "std::string") HOSTILE(UC, "std::unique_ptr<Compat>") HOSTILE(TestMessage, "TestMessage (protobuf)")
  // shards run in parallel children; a sanitizer abort is attributed to the input in flight
  struct Running { pid_t pid; SharedArea* sa; const char* name; };
  std::vector<Running> running; std::vector<std::string> viols, errors, samples; uint64_t values = 0, parses = 0, hostile = 0, hostile_ok = 0; bool complete = true;
  auto reap = [&](Running r) {
    int st = 0; waitpid(r.pid, &st, 0);
    values += r.sa->values; parses += r.sa->parses; hostile += r.sa->hostile; hostile_ok += r.sa->hostile_ok;
    for (int i = 0; i < r.sa->nviol; i++) viols.push_back(std::string(r.name) + ": " + r.sa->viol[i]);
    for (int i = 0; i < r.sa->nsample; i++) if (samples.size() < 6) samples.push_back(r.sa->sample[i]);
    if (!WIFEXITED(st) || WEXITSTATUS(st) != 0) {
      std::string in; for (int i = 0; i < r.sa->inflight_len && i < 64; i++) in.push_back((char)r.sa->inflight[i]);
      if (r.sa->inflight_len >= 0) viols.push_back(std::string(r.name) + ": crash or sanitizer report while parsing input " + hex(in) + " into " + r.sa->inflight_what);
      else viols.push_back(std::string(r.name) + ": crash or sanitizer report (exit status " + std::to_string(st) + ")");
    }
    munmap(r.sa, sizeof(SharedArea));
  };
  size_t next = 0;
  while (next < shards.size() || !running.empty()) {
    while (next < shards.size() && running.size() < 16) {
      SharedArea* sa = (SharedArea*)mmap(nullptr, sizeof(SharedArea), PROT_READ | PROT_WRITE, MAP_SHARED | MAP_ANONYMOUS, -1, 0); memset((void*)sa, 0, sizeof *sa); sa->inflight_len = -1;
      pid_t p = fork();
      if (p == 0) { SA = sa; shards[next].run(); _exit(0); }
      running.push_back({p, sa, shards[next].name}); next++;
    }
    reap(running.front()); running.erase(running.begin());
  }
  if (now_s() > deadline) complete = false;
  FILE* fo = out.empty() ? stdout : fopen(out.c_str(), "w"); if (!fo) return 2;
  auto esc = [](const std::string& s) { std::string o; for (char c : s) { if (c == '"' || c == '\\') { o += '\\'; o += c; } else if ((unsigned char)c < 32) o += ' '; else o += c; } return o; };
  fprintf(fo, "{\"harness\": \"sq_ser\", \"kind\": \"seqx\", \"systems\": %zu, \"states\": %llu, \"transitions\": %llu, \"executions\": %llu, \"complete\": %s, \"wall_s\": %.2f,\n \"violations\": [",
          shards.size(), (unsigned long long)(values + hostile), (unsigned long long)(parses + hostile_ok), (unsigned long long)(parses + hostile * 3), complete ? "true" : "false", now_s() - t0);
  for (size_t i = 0; i < viols.size(); i++) {
    char path[512]; snprintf(path, sizeof path, "%s/sq_ser-%zu.json", rdir.c_str(), i);
    FILE* fr = fopen(path, "w"); if (fr) { fprintf(fr, "{\"kind\": \"seqx\", \"harness\": \"sq_ser\", \"system\": \"serialization\", \"ops_joined\": \"\", \"message\": \"%s\"}\n", esc(viols[i]).c_str()); fclose(fr); }
    fprintf(fo, "%s{\"system\": \"serialization\", \"message\": \"%s\", \"ops\": \"\", \"replay\": \"%s\"}", i ? ", " : "", esc(viols[i]).c_str(), path);
  }
  fprintf(fo, "],\n \"errors\": [],\n \"samples\": [");
  for (size_t i = 0; i < samples.size(); i++) fprintf(fo, "%s\"%s\"", i ? ", " : "", esc(samples[i]).c_str());
  fprintf(fo, "],\n \"detail\": {\"values\": %llu, \"parses_of_valid_encodings\": %llu, \"hostile_inputs\": %llu, \"hostile_inputs_accepted\": %llu, \"full_alphabet_length\": %d, \"schema_alphabet_length\": %d, \"shards\": %zu}}\n",
          (unsigned long long)values, (unsigned long long)parses, (unsigned long long)hostile, (unsigned long long)hostile_ok, full_len, reduced_len, shards.size());
  if (!out.empty()) fclose(fo);
  return viols.empty() ? 0 : 1;
}
