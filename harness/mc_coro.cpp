// mc_coro.cpp — C13: coroutine futex, cancellable awaits, future awaitables and tasks across executors.
#include <atomic>
#include <thread>
#include <vector>

#include "babylon/coroutine/cancelable.h"
#include "babylon/coroutine/futex.h"
#include "babylon/coroutine/future_awaitable.h"
#include "babylon/executor.h"
#include "bbmc.h"

using babylon::CoroutineTask;
using babylon::Executor;
using babylon::InplaceExecutor;
using babylon::MoveOnlyFunction;
using babylon::coroutine::Cancellable;
using babylon::coroutine::Futex;
typedef Futex::Cancellation FCancel;
typedef babylon::coroutine::BasicCancellable::Cancellation BCancel;

// executor that runs every invocation on a fresh (joined) thread
struct ThreadExecutor : public Executor {
  std::thread threads[16]; std::atomic<int> n{0};
  int invoke(MoveOnlyFunction<void(void)>&& function) noexcept override {
    int i = n.fetch_add(1, std::memory_order_relaxed); bbmc::require(i < 16, "too many launches");
    threads[i] = std::thread([this, f = std::move(function)]() mutable { RunnerScope scope {*this}; f(); });
    return 0;
  }
  void join_all() { for (int i = 0; i < n.load(); i++) if (threads[i].joinable()) threads[i].join(); }
};

static const char* names[] = {
    "futex: one waiter; wake_one || cancel",
    "futex: two waiters; wake_one || cancel of the list head",
    "futex: two waiters; wake_all || a new waiter arrives (slot reuse)",
    "futex: waits with a non-matching value do not suspend and leave no bookkeeping behind",
    "futex: two waiters; wake_one || wake_one",
    "cancellable future await: set_value || cancel",
    "future await: await_suspend || set_value",
    "task awaiting a task bound to another executor",
    "futex: waiters bound to two executors; wake_all resumes each on its own executor",
    "futex: one waiter; cancel || cancel || wake_all",
    "two futexes: cancel of F's list head || F.wake_all, then new waiters on G reuse the slots: F.wake_all finds nobody, G.wake_all finds its own",
    "futex: a waiter arrives || the word changes and wake_all runs: the waiter must not stay suspended",
    "futex, sequential: three waiters; wake_one; cancel the new list head; a new waiter; wake_one; wake_all: every waiter resumed exactly once",
    "futex: cancel(W) || a new waiter V suspends on another futex (it may be given the slot W's cancellation releases)",
};
int harness_configs() { return sizeof(names) / sizeof(names[0]); }
const char* harness_config_name(int c) { return names[c]; }
const char* harness_name() { return "mc_coro"; }

struct World {
  Futex futex; Futex other;
  std::atomic<int> resumed[4]; std::atomic<int> wrong_exec[4]; FCancel token[4]; bool have_token[4];
  World() { for (int i = 0; i < 4; i++) { resumed[i] = 0; wrong_exec[i] = 0; have_token[i] = false; } bbmc::background(resumed, sizeof resumed); bbmc::background(wrong_exec, sizeof wrong_exec); }
};
static CoroutineTask<> waiter_on(Futex& fx, World& w, Executor& ex, int i, uint64_t expect) {
  co_await fx.wait(expect).on_suspend([&w, i](FCancel&& t) { w.token[i] = std::move(t); w.have_token[i] = true; });
  w.resumed[i].fetch_add(1, std::memory_order_relaxed);
  if (!ex.is_running_in()) w.wrong_exec[i].fetch_add(1, std::memory_order_relaxed);
  co_return;
}
static CoroutineTask<> waiter(World& w, Executor& ex, int i, uint64_t expect) {
  co_await w.futex.wait(expect).on_suspend([&w, i](FCancel&& t) { w.token[i] = std::move(t); w.have_token[i] = true; });
  w.resumed[i].fetch_add(1, std::memory_order_relaxed);
  if (!ex.is_running_in()) w.wrong_exec[i].fetch_add(1, std::memory_order_relaxed);
  co_return;
}
// the per-wait nodes live in DepositBox slots that are recycled: whoever walks them after giving them back races with the next wait
static void scope_nodes(int n) { auto& box = babylon::DepositBox<Futex::Node>::instance(); for (int i = 0; i < n; i++) { auto& slot = box._slots.ensure(i); bbmc::race_scope(&slot.object, sizeof slot.object); } }
static size_t node_slots() { return babylon::DepositBox<Futex::Node>::instance()._slot_id_allocator.end(); }

static void check_once(World& w, int n) {
  for (int i = 0; i < n; i++) {
    int r = w.resumed[i].load();
    bbmc::check(r <= 1, "a suspended coroutine was resumed twice");
    bbmc::check(r == 1, "a suspended coroutine was left suspended although its wake condition occurred");
    bbmc::check(w.wrong_exec[i].load() == 0, "a coroutine was resumed outside the executor it is bound to");
  }
}

void harness_main(int cfg) {
  bbmc::sleeps_advance_clock(false);
  auto& inplace = InplaceExecutor::instance();
  World w; w.futex.value() = 7;
  scope_nodes(4);
  switch (cfg) {
    case 0: {
      auto f = inplace.execute(waiter, std::ref(w), std::ref((Executor&)inplace), 0, 7);
      bbmc::require(w.have_token[0] && !f.ready(), "waiter did not suspend");
      int woke = -1; bool cancelled = false;
      std::thread a([&] { woke = w.futex.wake_one(); }), b([&] { cancelled = w.token[0](); });
      a.join(); b.join();
      bbmc::check((woke == 1) != cancelled, woke == 1 ? "wake_one and cancel both claim the same waiter" : "neither wake_one nor cancel resumed the only waiter");
      check_once(w, 1); bbmc::check(f.ready(), "task future not ready after its coroutine finished");
      bbmc::check(w.futex.wake_one() == 0 && !w.token[0](), "a finished wait can still be woken or cancelled");
      break;
    }
    case 1: {
      auto f0 = inplace.execute(waiter, std::ref(w), std::ref((Executor&)inplace), 0, 7);
      auto f1 = inplace.execute(waiter, std::ref(w), std::ref((Executor&)inplace), 1, 7);   // list head
      int woke = -1; bool cancelled = false;
      std::thread a([&] { woke = w.futex.wake_one(); }), b([&] { cancelled = w.token[1](); });
      a.join(); b.join();
      // waiter 0 was suspended and not being cancelled the whole time: wake_one must have resumed somebody
      bbmc::check(woke == 1, "wake_one returned 0 although a waiter that is not being cancelled was suspended");
      int total = w.resumed[0].load() + w.resumed[1].load();
      bbmc::check(total == (cancelled ? 2 : 1), "number of resumed coroutines does not match wake_one + cancel results");
      int rest = w.futex.wake_all();
      bbmc::check(rest == 2 - total, "wake_all did not return the number of coroutines it resumed");
      check_once(w, 2); bbmc::check(f0.ready() && f1.ready(), "futures");
      break;
    }
    case 2: {
      auto f0 = inplace.execute(waiter, std::ref(w), std::ref((Executor&)inplace), 0, 7);
      auto f1 = inplace.execute(waiter, std::ref(w), std::ref((Executor&)inplace), 1, 7);
      int r1 = -1; babylon::Future<void> f2;
      std::thread a([&] { r1 = w.futex.wake_all(); }), b([&] { f2 = inplace.execute(waiter, std::ref(w), std::ref((Executor&)inplace), 2, 7); });
      a.join(); b.join();
      int now = w.resumed[0].load() + w.resumed[1].load() + w.resumed[2].load();
      bbmc::check(r1 == now, "wake_all did not return the number of coroutines it resumed");
      bbmc::check(w.resumed[0].load() == 1 && w.resumed[1].load() == 1, "wake_all left a waiter suspended that was waiting before it was called (or resumed one twice)");
      int r2 = w.futex.wake_all();
      bbmc::check(r1 + r2 == 3, "a waiter was lost or resumed twice across two wake_all calls");
      check_once(w, 3);
      bbmc::check(node_slots() <= 3, "per-wait bookkeeping grew beyond the number of simultaneously pending waits");
      break;
    }
    case 3: {
      for (int i = 0; i < 3; i++) { auto f = inplace.execute(waiter, std::ref(w), std::ref((Executor&)inplace), i, 8 /* != 7 */); bbmc::check(f.ready() && w.resumed[i].load() == 1 && !w.have_token[i], "a wait with a non-matching value suspended"); }
      bbmc::check(node_slots() <= 1, "waits that did not suspend leaked their bookkeeping slot");
      auto f = inplace.execute(waiter, std::ref(w), std::ref((Executor&)inplace), 3, 7);
      bbmc::check(w.futex.wake_one() == 1 && f.ready(), "matching wait after non-matching ones");
      bbmc::check(node_slots() <= 1, "bookkeeping slots are not recycled");
      break;
    }
    case 4: {
      auto f0 = inplace.execute(waiter, std::ref(w), std::ref((Executor&)inplace), 0, 7);
      auto f1 = inplace.execute(waiter, std::ref(w), std::ref((Executor&)inplace), 1, 7);
      int r1 = -1, r2 = -1;
      std::thread a([&] { r1 = w.futex.wake_one(); }), b([&] { r2 = w.futex.wake_one(); });
      a.join(); b.join();
      bbmc::check(r1 == 1 && r2 == 1, "wake_one returned 0 although a waiter existed");
      check_once(w, 2);
      break;
    }
    case 5: {
      babylon::Promise<int> p; BCancel token; bool have = false; std::atomic<int> resumed{0}; int got = -2; bbmc::background(&resumed, sizeof resumed);
      auto f = inplace.execute([&]() -> CoroutineTask<> {
        auto r = co_await Cancellable<babylon::coroutine::FutureAwaitable<int>>(babylon::coroutine::FutureAwaitable<int>(p.get_future())).on_suspend([&](BCancel&& t) { token = std::move(t); have = true; });
        resumed.fetch_add(1, std::memory_order_relaxed); got = r ? *r : -1; co_return;
      });
      bbmc::require(have && !f.ready(), "cancellable did not suspend");
      bool cancelled = false;
      std::thread a([&] { p.set_value(5); }), b([&] { cancelled = token(); });
      a.join(); b.join();
      bbmc::check(resumed.load() == 1 && f.ready(), "cancellable await was not resumed exactly once");
      bbmc::check(cancelled ? got == -1 : got == 5, "empty optional if and only if cancellation won");
      break;
    }
    case 6: {
      babylon::Promise<int> p; std::atomic<int> resumed{0}; int got = -1; bbmc::background(&resumed, sizeof resumed); babylon::Future<void> f;
      std::thread a([&] { f = inplace.execute([&]() -> CoroutineTask<> { got = co_await p.get_future(); resumed.fetch_add(1, std::memory_order_relaxed); co_return; }); });
      std::thread b([&] { p.set_value(9); });
      a.join(); b.join();
      bbmc::check(resumed.load() == 1 && got == 9 && f.ready(), "future await was not resumed exactly once with the value");
      break;
    }
    case 7: {
      ThreadExecutor other; bbmc::background(&other.n, sizeof other.n); int inner_ok = 0, outer_ok = 0, result = 0;
      auto f = inplace.execute([&]() -> CoroutineTask<int> {
        int v = co_await [&]() -> CoroutineTask<int> { inner_ok = other.is_running_in() ? 1 : -1; co_return 41; }().set_executor(other);
        outer_ok = inplace.is_running_in() ? 1 : -1;
        co_return v + 1;
      });
      result = f.get();
      other.join_all();
      bbmc::check(result == 42, "awaited task value lost");
      bbmc::check(inner_ok == 1, "a task bound to another executor did not run there");
      bbmc::check(outer_ok == 1, "the awaiting coroutine was not resumed on its own executor");
      break;
    }
    case 8: {
      ThreadExecutor other; bbmc::background(&other.n, sizeof other.n);
      auto f0 = inplace.execute(waiter, std::ref(w), std::ref((Executor&)inplace), 0, 7);
      auto f1 = other.execute(waiter, std::ref(w), std::ref((Executor&)other), 1, 7);
      while (!w.have_token[1]) sched_yield();   // plain flag written by the launch thread; joined below before it is trusted
      other.join_all();
      int r = w.futex.wake_all();
      f0.get(); f1.get();
      other.join_all();
      bbmc::check(r == 2, "wake_all did not resume both waiters");
      check_once(w, 2);
      break;
    }
    case 10: {
      w.other.value() = 7;
      auto f0 = inplace.execute(waiter, std::ref(w), std::ref((Executor&)inplace), 0, 7);
      auto f1 = inplace.execute(waiter, std::ref(w), std::ref((Executor&)inplace), 1, 7);   // list head of F
      int woke = -1; bool cancelled = false;
      std::thread a([&] { woke = w.futex.wake_all(); }), b([&] { cancelled = w.token[1](); });
      a.join(); b.join();
      bbmc::check(woke + (cancelled ? 1 : 0) == 2 && w.resumed[0].load() == 1 && w.resumed[1].load() == 1, "wake_all + cancel did not resume both waiters exactly once");
      // two new waits, on the other futex; they reuse the per-wait slots that were just given back
      auto f2 = inplace.execute(waiter_on, std::ref(w.other), std::ref(w), std::ref((Executor&)inplace), 2, 7);
      auto f3 = inplace.execute(waiter_on, std::ref(w.other), std::ref(w), std::ref((Executor&)inplace), 3, 7);
      int stale = w.futex.wake_all();
      bbmc::check(stale == 0, "wake_all on a futex nobody waits on reported waiters (stale nodes left behind by the wake_all / cancel race)");
      bbmc::check(w.resumed[2].load() == 0 && w.resumed[3].load() == 0, "waking one futex resumed coroutines that wait on another one");
      int own = w.other.wake_all();
      bbmc::check(own == 2, "wake_all did not find the coroutines waiting on its own futex");
      check_once(w, 4);
      break;
    }
    case 11: {
      babylon::Future<void> f; int r = -1;
      std::thread a([&] { f = inplace.execute(waiter, std::ref(w), std::ref((Executor&)inplace), 0, 7); });
      std::thread b([&] { w.futex.value() = 8; r = w.futex.wake_all(); });
      a.join(); b.join();
      // either the waiter saw the new word and did not suspend, or it was queued before wake_all looked and was woken
      bbmc::check(w.resumed[0].load() == 1, "a wait was left suspended although the word had already changed and wake_all ran afterwards (lost wake-up)");
      bbmc::check(r == (w.have_token[0] ? 1 : 0), "wake_all's return value does not match the coroutines it resumed");
      break;
    }
    case 12: {
      auto f0 = inplace.execute(waiter, std::ref(w), std::ref((Executor&)inplace), 0, 7);
      auto f1 = inplace.execute(waiter, std::ref(w), std::ref((Executor&)inplace), 1, 7);
      auto f2 = inplace.execute(waiter, std::ref(w), std::ref((Executor&)inplace), 2, 7);
      bbmc::check(w.futex.wake_one() == 1, "wake_one with three waiters did not resume one");
      int first = w.resumed[0].load() + w.resumed[1].load() + w.resumed[2].load(); bbmc::check(first == 1, "wake_one did not resume exactly one coroutine");
      // cancel every waiter that is still suspended and was queued after waiter 0 (one of them is the new list head)
      int cancelled = 0; for (int i = 2; i >= 1; i--) if (w.resumed[i].load() == 0) { bbmc::check(w.token[i](), "cancelling a suspended waiter failed"); cancelled++; break; }
      auto f3 = inplace.execute(waiter, std::ref(w), std::ref((Executor&)inplace), 3, 7);   // reuses the slot the cancellation gave back
      int a = w.futex.wake_one(); bbmc::check(a == 1, "wake_one returned 0 although coroutines are suspended on the futex");
      int b = w.futex.wake_all();
      int total = 0; for (int i = 0; i < 4; i++) total += w.resumed[i].load();
      bbmc::check(first + cancelled + a + b == 4 && total == 4, "waiters were lost from (or duplicated in) the futex's list: not every suspended coroutine was resumed exactly once");
      check_once(w, 4);
      break;
    }
    case 13: {
      w.other.value() = 7;
      auto f0 = inplace.execute(waiter, std::ref(w), std::ref((Executor&)inplace), 0, 7);
      bool cancelled = false; babylon::Future<void> f1;
      std::thread a([&] { cancelled = w.token[0](); }), b([&] { f1 = inplace.execute(waiter_on, std::ref(w.other), std::ref(w), std::ref((Executor&)inplace), 1, 7); });
      a.join(); b.join();
      bbmc::check(cancelled && w.resumed[0].load() == 1, "the only cancellation of a suspended wait did not resume it (exactly once)");
      bbmc::check(w.resumed[1].load() == 0, "a coroutine that nobody woke or cancelled was resumed");
      bbmc::check(w.other.wake_all() == 1, "wake_all did not find the coroutine waiting on its futex");
      check_once(w, 2);
      break;
    }
    case 9: {
      auto f = inplace.execute(waiter, std::ref(w), std::ref((Executor&)inplace), 0, 7);
      bool c1 = false, c2 = false; int r = -1;
      std::thread a([&] { c1 = w.token[0](); }), b([&] { c2 = w.token[0](); }), c([&] { r = w.futex.wake_all(); });
      a.join(); b.join(); c.join();
      bbmc::check((int)c1 + (int)c2 + r == 1, "exactly one of two cancels and a wake_all may win one waiter");
      check_once(w, 1);
      break;
    }
  }
}
