// sq_hash.cpp — C18: ConcurrentTransientHashSet / Map against std::unordered_* over all operation sequences.
#include <algorithm>
#include <memory>
#include <string>
#include <unordered_map>
#include <unordered_set>

#include "babylon/concurrent/transient_hash_table.h"
#include "seqx.h"

struct IntHash {
  size_t operator()(int k) const noexcept { uint64_t x = (uint64_t)k + 0x9e3779b97f4a7c15ULL; x = (x ^ (x >> 30)) * 0xbf58476d1ce4e5b9ULL; x = (x ^ (x >> 27)) * 0x94d049bb133111ebULL; return x ^ (x >> 31); }
};
static inline int key_of(int i) { return i * 7 + 3; }

// ---- element flavours ------------------------------------------------------------------------------------
struct SetTraits {
  typedef babylon::ConcurrentTransientHashSet<int, IntHash> Impl;
  typedef std::unordered_set<int> Model;
  static const char* tname() { return "set<int>"; }
  static constexpr bool copyable = true;
  static bool emplace(Impl& c, int k, int) { return c.emplace(k).second; }
  static bool emplace(Model& m, int k, int) { return m.emplace(k).second; }
  static int key(const int& e) { return e; }
  static std::string value(const int&) { return ""; }
  static std::string mvalue(const Model&, int) { return ""; }
};
struct MapTraits {
  typedef babylon::ConcurrentTransientHashMap<int, std::string, IntHash> Impl;
  typedef std::unordered_map<int, std::string> Model;
  static const char* tname() { return "map<int,string>"; }
  static constexpr bool copyable = true;
  static bool emplace(Impl& c, int k, int v) { return c.emplace(k, "v" + std::to_string(v)).second; }
  static bool emplace(Model& m, int k, int v) { return m.emplace(k, "v" + std::to_string(v)).second; }
  static int key(const std::pair<const int, std::string>& e) { return e.first; }
  static std::string value(const std::pair<const int, std::string>& e) { return e.second; }
  static std::string mvalue(const Model& m, int k) { return m.at(k); }
};
struct MoveOnlyTraits {
  typedef babylon::ConcurrentTransientHashMap<int, std::unique_ptr<int>, IntHash> Impl;
  typedef std::unordered_map<int, int> Model;
  static const char* tname() { return "map<int,unique_ptr>"; }
  static constexpr bool copyable = false;
  static bool emplace(Impl& c, int k, int v) { return c.emplace(k, std::unique_ptr<int>(new int(v))).second; }
  static bool emplace(Model& m, int k, int v) { return m.emplace(k, v).second; }
  static int key(const std::pair<const int, std::unique_ptr<int>>& e) { return e.first; }
  static std::string value(const std::pair<const int, std::unique_ptr<int>>& e) { return e.second ? std::to_string(*e.second) : "null"; }
  static std::string mvalue(const Model& m, int k) { return std::to_string(m.at(k)); }
};

enum OpKind { EMPLACE_NEXT, EMPLACE_DUP, EMPLACE_15, EMPLACE_16, EMPLACE_17, EMPLACE_33, CLEAR, RESERVE_1, RESERVE_MORE, RESERVE_64, REHASH_1, REHASH_64,
              COPY_TO_B, COPY_ASSIGN_FROM_B, MOVE_ASSIGN_FROM_B, SWAP_AB, B_EMPLACE_NEXT, B_EMPLACE_17, NUM_OPS };
static const char* op_names[] = {"emplace(next)", "emplace(dup)", "emplace(next 15)", "emplace(next 16)", "emplace(next 17)", "emplace(next 33)", "clear", "reserve(1)", "reserve(size+1)", "reserve(64)", "rehash(1)", "rehash(64)",
                                 "B=copy(A)", "A=B", "A=move(B)", "swap(A,B)", "B.emplace(next)", "B.emplace(next 17)"};

template <class TR, int INIT>  // INIT: -1 default constructed, else min bucket count
struct HashSys {
  typename TR::Impl a, b; typename TR::Model ma, mb; int next = 0; int values = 0;
  static int mkey(int e) { return e; }
  template <class V> static int mkey(const std::pair<const int, V>& e) { return e.first; }
  static std::string name() { return std::string(TR::tname()) + (INIT < 0 ? " default-constructed" : " buckets=" + std::to_string(INIT)); }
  static int num_ops() { return NUM_OPS; }
  static std::string op_name(int op) { return op_names[op]; }
  HashSys() : a(make()), b() {}
  static typename TR::Impl make() { if (INIT < 0) return typename TR::Impl(); return typename TR::Impl((size_t)INIT); }
  bool enabled(int op) {
    if (next > 140 && (op == EMPLACE_33 || op == EMPLACE_17 || op == EMPLACE_16 || op == EMPLACE_15 || op == B_EMPLACE_17)) return false;
    if (op == EMPLACE_DUP) return !ma.empty();
    if ((op == COPY_TO_B || op == COPY_ASSIGN_FROM_B) && !TR::copyable) return false;
    return true;
  }
  std::string ins(typename TR::Impl& c, typename TR::Model& m, int n) {
    for (int i = 0; i < n; i++) {
      int k = key_of(next++); int v = values++;
      bool r1 = TR::emplace(c, k, v), r2 = TR::emplace(m, k, v);
      if (r1 != r2) return "emplace of a fresh key reported inserted=" + std::to_string(r1) + ", reference says " + std::to_string(r2);
    }
    return "";
  }
  template <class I> static void copy_into(I& dst, const I& src, std::true_type) { dst = I(src); }
  template <class I> static void copy_into(I&, const I&, std::false_type) {}
  template <class I> static void assign_into(I& dst, const I& src, std::true_type) { dst = src; }
  template <class I> static void assign_into(I&, const I&, std::false_type) {}
  std::string apply(int op) {
    switch (op) {
      case EMPLACE_NEXT: return ins(a, ma, 1);
      case EMPLACE_DUP: { int k = key_of(0); if (!ma.count(k)) k = mkey(*ma.begin()); int v = values++; bool r1 = TR::emplace(a, k, v), r2 = TR::emplace(ma, k, v); if (r1 != r2) return "emplace of a present key reported inserted=" + std::to_string(r1); return ""; }
      case EMPLACE_15: return ins(a, ma, 15);
      case EMPLACE_16: return ins(a, ma, 16);
      case EMPLACE_17: return ins(a, ma, 17);
      case EMPLACE_33: return ins(a, ma, 33);
      case CLEAR: a.clear(); ma.clear(); return "";
      case RESERVE_1: a.reserve(1); return "";
      case RESERVE_MORE: a.reserve(ma.size() + 1); return "";
      case RESERVE_64: a.reserve(64); return "";
      case REHASH_1: a.rehash(1); return "";
      case REHASH_64: a.rehash(64); return "";
      case COPY_TO_B: copy_into(b, a, std::integral_constant<bool, TR::copyable>()); mb = ma; return "";
      case COPY_ASSIGN_FROM_B: assign_into(a, b, std::integral_constant<bool, TR::copyable>()); ma = mb; return "";
      case MOVE_ASSIGN_FROM_B: a = std::move(b); ma = std::move(mb); b = typename TR::Impl(); mb.clear(); return "";
      case SWAP_AB: a.swap(b); ma.swap(mb); return "";
      case B_EMPLACE_NEXT: return ins(b, mb, 1);
      case B_EMPLACE_17: return ins(b, mb, 17);
    }
    return "bad op";
  }
  static std::string check_one(const char* who, typename TR::Impl& c, const typename TR::Model& m, int universe) {
    if (c.size() != m.size()) return std::string(who) + ".size() = " + std::to_string(c.size()) + " but " + std::to_string(m.size()) + " distinct keys were inserted";
    std::unordered_map<int, int> seen; size_t n = 0;
    for (auto it = c.begin(); it != c.end(); ++it) {
      int k = TR::key(*it); n++;
      if (++seen[k] > 1) return std::string(who) + ": iteration visits key " + std::to_string(k) + " twice";
      if (!m.count(k)) return std::string(who) + ": iteration yields key " + std::to_string(k) + " that was never inserted";
      if (TR::value(*it) != TR::mvalue(m, k)) return std::string(who) + ": mapped value of key " + std::to_string(k) + " is " + TR::value(*it) + ", first inserted was " + TR::mvalue(m, k);
      if (n > m.size() + 4) break;
    }
    if (n != m.size()) return std::string(who) + ": iteration visits " + std::to_string(n) + " elements, " + std::to_string(m.size()) + " are present";
    for (int i = 0; i < universe + 2; i++) {
      int k = key_of(i); auto it = c.find(k); bool hit = (it != c.end());
      if (hit != (m.count(k) > 0)) return std::string(who) + ".find(" + std::to_string(k) + ") " + (hit ? "hits an absent key" : "misses a present key");
      if (hit && TR::key(*it) != k) return std::string(who) + ".find returned a different key";
      if (c.contains(k) != hit || c.count(k) != (hit ? 1u : 0u)) return std::string(who) + ": contains/count disagree with find";
    }
    return "";
  }
  std::string check() {
    std::string e = check_one("A", a, ma, next); if (!e.empty()) return e;
    return check_one("B", b, mb, next);
  }
  // canonical state: the chain of (bucket_count, size) of every table decides every branch of the implementation
  // (placeholder or not, full or not, which table receives the next key); contents are determined by the key counters
  static std::string chain(typename TR::Impl& c) {
    std::string s; auto* node = &c._head;
    while (node) { s += "(" + std::to_string(node->table.bucket_count()) + "," + std::to_string(node->table.size()) + (node->table._controls == babylon::internal::concurrent_transient_hash_table::Group::s_dummy_controls ? ",dummy" : "") + ")"; node = node->next.load(); }
    return s;
  }
  static std::string keys(const typename TR::Model& m) { std::vector<int> v; for (auto& e : m) v.push_back(mkey(e)); std::sort(v.begin(), v.end()); std::string s; int run = 0; for (size_t i = 0; i < v.size(); i++) { s += std::to_string(v[i]) + ","; (void)run; } return s; }
  std::string canon() { return "A" + chain(a) + "{" + keys(ma) + "} B" + chain(b) + "{" + keys(mb) + "} next=" + std::to_string(next); }
};

static void register_systems() {
  seqx::add<HashSys<SetTraits, -1>>();
  seqx::add<HashSys<SetTraits, 1>>();
  seqx::add<HashSys<SetTraits, 16>>();
  seqx::add<HashSys<SetTraits, 17>>();
  seqx::add<HashSys<SetTraits, 32>>();
  seqx::add<HashSys<MapTraits, -1>>();
  seqx::add<HashSys<MapTraits, 16>>();
  seqx::add<HashSys<MoveOnlyTraits, -1>>();
  seqx::add<HashSys<MoveOnlyTraits, 16>>();
}
SEQX_MAIN("sq_hash")
