// mc_gc.cpp — C10: GarbageCollector: reclaimers run exactly once, never early, before stop() / the destructor returns.
#include <atomic>
#include <thread>
#include <vector>

#include "babylon/concurrent/garbage_collector.h"
#include "bbmc.h"

struct Counters {
  std::atomic<int> invoked[4]; std::atomic<int> lost[4]; std::atomic<int> early[4];
  std::atomic<int> region_open{0};   // readers currently inside a region that was open at retire time
  Counters() { for (int i = 0; i < 4; i++) { invoked[i] = 0; lost[i] = 0; early[i] = 0; } }
};
// move-only reclaimer; a reclaimer object that dies without having been invoked counts as lost
struct Rec {
  Counters* c = nullptr; int id = -1; bool armed = false; bool guarded = false;
  Rec() = default;
  Rec(Counters* cc, int i, bool g) : c(cc), id(i), armed(true), guarded(g) {}
  Rec(Rec&& o) noexcept : c(o.c), id(o.id), armed(o.armed), guarded(o.guarded) { o.armed = false; }
  Rec& operator=(Rec&& o) noexcept { if (armed) c->lost[id].fetch_add(1, std::memory_order_relaxed); c = o.c; id = o.id; armed = o.armed; guarded = o.guarded; o.armed = false; return *this; }
  ~Rec() { if (armed) c->lost[id].fetch_add(1, std::memory_order_relaxed); }
  void operator()() {
    if (guarded && c->region_open.load(std::memory_order_relaxed) != 0) c->early[id].fetch_add(1, std::memory_order_relaxed);
    c->invoked[id].fetch_add(1, std::memory_order_relaxed); armed = false;
  }
};
typedef babylon::GarbageCollector<Rec> GC;

static const char* names[] = {
    "cap 2: retire under an open region (thread-local style), stop() while it is still open",
    "cap 2: retire under an open region (accessor style), stop() while it is still open",
    "cap 1: two retiring threads x2 reclaimers, no reader, then stop()",
    "cap 2: retire under an open region, collector destroyed instead of stop()",
    "cap 4: stop() with nothing retired; stop() twice",
    "cap 2: two reclaimers, the first guarded by an open region, the second not",
    "cap 2: retire under an open region; the reader enters and leaves a nested region afterwards (thread-local style)",
    "cap 2: retire under an open region; the reader enters and leaves a nested region afterwards (accessor style)",
};
int harness_configs() { return sizeof(names) / sizeof(names[0]); }
const char* harness_config_name(int c) { return names[c]; }
const char* harness_name() { return "mc_gc"; }

static void final_checks(Counters& c, int n) {
  for (int i = 0; i < n; i++) {
    int inv = c.invoked[i].load(), lost = c.lost[i].load();
    bbmc::check(inv <= 1, "a reclaimer was invoked more than once");
    bbmc::check(c.early[i].load() == 0, "a reclaimer was invoked while a critical region that was open at its retirement is still open");
    bbmc::check(inv == 1, lost ? "a reclaimer handed to retire() was destroyed without being invoked (lost) by the time stop()/the destructor returned" : "a reclaimer handed to retire() had not been invoked when stop()/the destructor returned");
  }
}

void harness_main(int cfg) {
  bbmc::sleeps_advance_clock(false);
  Counters c; bbmc::background(&c, sizeof c);
  switch (cfg) {
    case 0: case 1: case 3: case 5: case 6: case 7: {
      bool accessor = (cfg == 1 || cfg == 7); bool nested = (cfg == 6 || cfg == 7);
      std::atomic<int> locked{0}, retired{0};
      {
        GC gc; gc.set_queue_capacity(2); gc.start();
        std::thread reader([&] {
          babylon::Epoch::Accessor a; if (accessor) a = gc.epoch().create_accessor();
          if (accessor) a.lock(); else gc.epoch().lock();
          c.region_open.store(1, std::memory_order_relaxed);
          locked.store(1, std::memory_order_release);
          while (retired.load(std::memory_order_acquire) == 0) sched_yield();
          if (nested) { if (accessor) { a.lock(); a.unlock(); } else { gc.epoch().lock(); gc.epoch().unlock(); } }   // the outer region is still open
          sched_yield();  // the region stays open for a while after the retirement
          c.region_open.store(0, std::memory_order_relaxed);
          if (accessor) a.unlock(); else gc.epoch().unlock();
        });
        std::thread retirer([&] {
          while (locked.load(std::memory_order_acquire) == 0) sched_yield();
          gc.retire(Rec(&c, 0, true));
          if (cfg == 5) gc.retire(Rec(&c, 1, true));
          retired.store(1, std::memory_order_release);
        });
        retirer.join();
        if (cfg != 3) gc.stop();
        if (cfg != 3) final_checks(c, cfg == 5 ? 2 : 1);  // "no later than the return of stop()"
        reader.join();
      }
      final_checks(c, cfg == 5 ? 2 : 1);  // destructor returned
      break;
    }
    case 2: {
      GC gc; gc.set_queue_capacity(1); gc.start();
      std::thread a([&] { gc.retire(Rec(&c, 0, false)); gc.retire(Rec(&c, 1, false)); });
      std::thread b([&] { gc.retire(Rec(&c, 2, false)); gc.retire(Rec(&c, 3, false)); });
      a.join(); b.join();
      gc.stop();
      final_checks(c, 4);
      break;
    }
    case 4: {
      GC gc; gc.set_queue_capacity(4); gc.start();
      gc.stop(); gc.stop();
      break;
    }
  }
}
