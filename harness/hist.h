// hist.h — call/return recorder and the queue oracles (conservation, FIFO, try_ results).
#pragma once
#include <stdint.h>
#include <string.h>
#include "bbmc.h"

struct SmallVec {
  uint64_t a[16]; int n = 0;
  void push_back(uint64_t v) { if (n < 16) a[n++] = v; else bbmc::require(false, "SmallVec overflow"); }
  int size() const { return n; }
  uint64_t operator[](int i) const { return a[i]; }
};
struct OpRec {
  int tid = 0, kind = 0, k = 0; bool ok = true; bool used = false;
  uint64_t b = 0, e = 0;  // logical begin / end stamps
  SmallVec pushed, popped;
};
struct OpHistory {
  OpRec recs[48]; int cnt[6] = {0, 0, 0, 0, 0, 0};
  OpRec& begin(int tid, int kind, int k) {
    int row = tid == 99 ? 5 : tid;
    bbmc::require(row < 6 && cnt[row] < 8, "history overflow");
    OpRec& r = recs[row * 8 + cnt[row]++];
    r.tid = tid; r.kind = kind; r.k = k; r.used = true;
    r.b = bbmc::step();
    return r;
  }
  void end(OpRec& r) { r.e = bbmc::step(); }
  static bool before(const OpRec& a, const OpRec& b) { return a.e < b.b; }

  // nothing lost, duplicated or invented
  void check_conservation() {
    uint64_t pushed[256], popped[256]; int np = 0, nc = 0;
    for (auto& r : recs) if (r.used) { for (int i = 0; i < r.pushed.size(); i++) pushed[np++] = r.pushed[i]; for (int i = 0; i < r.popped.size(); i++) popped[nc++] = r.popped[i]; }
    for (int i = 0; i < nc; i++) {
      int seen = 0; for (int j = 0; j < nc; j++) if (popped[j] == popped[i]) seen++;
      bbmc::check(seen == 1, "an element was delivered twice");
      bool found = false; for (int j = 0; j < np; j++) if (pushed[j] == popped[i]) found = true;
      bbmc::check(found, "an element was delivered that nobody pushed");
    }
    bbmc::check(np == nc, "an element was lost (pushed but neither popped nor left in the queue)");
  }
  // a value pushed by an operation that returned before another push began is never popped after that
  // later value by operations that are themselves ordered (within one batch: position order)
  void check_fifo() {
    struct Ev { uint64_t v; const OpRec* op; int pos; };
    Ev pu[256], po[256]; int np = 0, nc = 0;
    for (auto& r : recs) if (r.used) { for (int i = 0; i < r.pushed.size(); i++) pu[np++] = {r.pushed[i], &r, i}; for (int i = 0; i < r.popped.size(); i++) po[nc++] = {r.popped[i], &r, i}; }
    for (int a = 0; a < np; a++) for (int b = 0; b < np; b++) {
      if (a == b) continue;
      bool pa_before_pb = (pu[a].op == pu[b].op) ? pu[a].pos < pu[b].pos : before(*pu[a].op, *pu[b].op);
      if (!pa_before_pb) continue;
      const Ev *ca = nullptr, *cb = nullptr;
      for (int i = 0; i < nc; i++) { if (po[i].v == pu[a].v) ca = &po[i]; if (po[i].v == pu[b].v) cb = &po[i]; }
      if (!ca || !cb) { if (!ca && cb) bbmc::check(false, "FIFO violated: a later element was delivered while an earlier one stayed behind"); continue; }
      bool cb_before_ca = (ca->op == cb->op) ? cb->pos < ca->pos : before(*cb->op, *ca->op);
      bbmc::check(!cb_before_ca, "FIFO violated: element pushed strictly earlier was popped strictly later");
    }
  }
  // a try_ operation fails or comes up short only if the queue was empty/full at some moment of the call or another
  // queue operation overlapped it. Checked when nothing overlaps: then the content at its begin is known exactly.
  void check_try_results(int cap, int k_try_push, int k_try_push_n, int k_try_pop, int k_try_pop_n) {
    for (auto& r : recs) {
      if (!r.used || r.tid == 99) continue;
      bool is_push = (r.kind == k_try_push || r.kind == k_try_push_n), is_pop = (r.kind == k_try_pop || r.kind == k_try_pop_n);
      if (!is_push && !is_pop) continue;
      int got = is_push ? r.pushed.size() : r.popped.size();
      if (got == r.k) continue;
      bool overlapped = false; int content = 0;
      for (auto& o : recs) {
        if (!o.used || &o == &r) continue;
        if (before(o, r)) content += o.pushed.size() - o.popped.size();
        else if (!before(r, o)) overlapped = true;
      }
      if (overlapped) continue;
      if (is_pop) bbmc::check(got == (content < r.k ? content : r.k), "try_pop came up short although elements were available and nothing overlapped it");
      else bbmc::check(got == ((cap - content) < r.k ? (cap - content) : r.k), "try_push came up short although space was available and nothing overlapped it");
    }
  }
  uint64_t outcome_hash() {
    uint64_t h = 7;
    for (auto& r : recs) if (r.used) { h = h * 1000003 + r.ok; for (int i = 0; i < r.popped.size(); i++) h = h * 1000003 + r.popped[i]; h = h * 31 + r.pushed.size(); }
    return h;
  }
};
