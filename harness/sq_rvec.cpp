// sq_rvec.cpp — C12: ReusableVector / ReusableString driven by all operation sequences vs std::vector / std::string.
#include <string>
#include <vector>

#include "babylon/reusable/manager.h"
#include "babylon/reusable/string.h"
#include "babylon/reusable/vector.h"
#include "seqx.h"

using babylon::SwissAllocator;
using babylon::SwissMemoryResource;
using babylon::SwissString;
using babylon::SwissVector;
typedef SwissAllocator<> Alloc;

static std::string sval(int v) { return v == 1 ? "a" : v == 2 ? "bb" : std::string(40, 'c'); }

struct IntT {
  typedef int E; typedef int M; typedef int Arg;
  static const char* tname() { return "int"; }
  static Arg arg(Alloc&, int v) { return v * 11; }
  static M m(int v) { return v * 11; }
  static bool eq(const E& e, const M& m) { return e == m; }
  static std::string show(const M& m) { return std::to_string(m); }
};
struct StrT {
  typedef SwissString E; typedef std::string M; typedef std::string Arg;
  static const char* tname() { return "SwissString"; }
  static Arg arg(Alloc&, int v) { return sval(v); }
  static M m(int v) { return sval(v); }
  static bool eq(const E& e, const M& m) { return e.size() == m.size() && std::string(e.data(), e.size()) == m; }
  static std::string show(const M& m) { return m.substr(0, 3) + "#" + std::to_string(m.size()); }
};
struct NestT {
  typedef SwissVector<int> E; typedef std::vector<int> M; typedef SwissVector<int> Arg;
  static const char* tname() { return "SwissVector<int>"; }
  static Arg arg(Alloc& a, int v) { return SwissVector<int>((size_t)v, v, a); }
  static M m(int v) { return std::vector<int>((size_t)v, v); }
  static bool eq(const E& e, const M& m) { if (e.size() != m.size()) return false; for (size_t i = 0; i < m.size(); i++) if (e[i] != m[i]) return false; return true; }
  static std::string show(const M& m) { return "[" + std::to_string(m.size()) + "]"; }
};

enum { PUSH_BACK, EMPLACE_BACK, POP_BACK, INSERT_BEGIN, INSERT_MID, INSERT_END, INSERT_N0_MID, INSERT_N2_BEGIN, INSERT_N2_MID, INSERT_N2_END, INSERT_RANGE_BEGIN, INSERT_RANGE_MID, INSERT_RANGE_END,
       EMPLACE_MID, ERASE_BEGIN, ERASE_MID, ERASE_LAST, ERASE_RANGE_HEAD, ERASE_RANGE_TAIL, ERASE_RANGE_ALL, RESIZE_0, RESIZE_1, RESIZE_GROW, RESIZE_GROW_V, RESERVE_MORE, ASSIGN_0, ASSIGN_2, ASSIGN_5, ASSIGN_RANGE3,
       CLEAR, SWAP_B, COPY_ASSIGN_FROM_B, COPY_ASSIGN_TO_B, MOVE_ASSIGN_FROM_B, MOVE_ASSIGN_FROM_C, COPY_ASSIGN_TO_C, B_PUSH_BACK, NUM_OPS };
static const char* names[] = {"push_back(v)", "emplace_back(v)", "pop_back", "insert(begin,v)", "insert(mid,v)", "insert(end,v)", "insert(mid,0,v)", "insert(begin,2,v)", "insert(mid,2,v)", "insert(end,2,v)", "insert(begin,range2)", "insert(mid,range2)", "insert(end,range2)",
                              "emplace(mid,v)", "erase(begin)", "erase(mid)", "erase(last)", "erase(begin,mid)", "erase(mid,end)", "erase(begin,end)", "resize(0)", "resize(1)", "resize(size+2)", "resize(size+2,v)", "reserve(cap+3)", "assign(0,v)", "assign(2,v)", "assign(5,v)", "assign(range3)",
                              "clear", "swap(B)", "A=B", "B=A", "A=move(B)", "A=move(C)", "C=A", "B.push_back(v)"};

template <class T>
struct VecSys {
  SwissMemoryResource r1, r2; Alloc a1{r1}, a2{r2};
  SwissVector<typename T::E> A{a1}, B{a1}, C{a2};
  std::vector<typename T::M> mA, mB, mC; int vc = 0; size_t floorA = 0, floorB = 0, floorC = 0;
  static std::string name() { return std::string("ReusableVector<") + T::tname() + ">"; }
  static int num_ops() { return NUM_OPS; }
  static std::string op_name(int op) { return names[op]; }
  int nextv() { vc = vc % 3 + 1; return vc; }
  bool enabled(int op) {
    size_t n = mA.size();
    if (n > 9 && (op == ASSIGN_5 || op == INSERT_N2_BEGIN || op == INSERT_N2_MID || op == INSERT_N2_END || op == INSERT_RANGE_BEGIN || op == INSERT_RANGE_MID || op == INSERT_RANGE_END || op == RESIZE_GROW || op == RESIZE_GROW_V || op == PUSH_BACK || op == EMPLACE_BACK || op == INSERT_BEGIN || op == INSERT_MID || op == INSERT_END || op == EMPLACE_MID)) return false;
    if (mB.size() > 4 && op == B_PUSH_BACK) return false;
    switch (op) { case POP_BACK: case ERASE_BEGIN: case ERASE_MID: case ERASE_LAST: return n > 0; case ERASE_RANGE_HEAD: case ERASE_RANGE_TAIL: return n > 1; }
    return true;
  }
  std::string apply(int op) {
    size_t n = mA.size(), mid = n / 2; int v;
    switch (op) {
      case PUSH_BACK: v = nextv(); A.push_back(T::arg(a1, v)); mA.push_back(T::m(v)); break;
      case EMPLACE_BACK: v = nextv(); A.emplace_back(T::arg(a1, v)); mA.emplace_back(T::m(v)); break;
      case POP_BACK: A.pop_back(); mA.pop_back(); break;
      case INSERT_BEGIN: v = nextv(); A.insert(A.begin(), T::arg(a1, v)); mA.insert(mA.begin(), T::m(v)); break;
      case INSERT_MID: v = nextv(); A.insert(A.begin() + mid, T::arg(a1, v)); mA.insert(mA.begin() + mid, T::m(v)); break;
      case INSERT_END: v = nextv(); A.insert(A.end(), T::arg(a1, v)); mA.insert(mA.end(), T::m(v)); break;
      case INSERT_N0_MID: v = nextv(); A.insert(A.begin() + mid, (size_t)0, T::arg(a1, v)); break;
      case INSERT_N2_BEGIN: v = nextv(); A.insert(A.begin(), (size_t)2, T::arg(a1, v)); mA.insert(mA.begin(), 2, T::m(v)); break;
      case INSERT_N2_MID: v = nextv(); A.insert(A.begin() + mid, (size_t)2, T::arg(a1, v)); mA.insert(mA.begin() + mid, 2, T::m(v)); break;
      case INSERT_N2_END: v = nextv(); A.insert(A.end(), (size_t)2, T::arg(a1, v)); mA.insert(mA.end(), 2, T::m(v)); break;
      case INSERT_RANGE_BEGIN: case INSERT_RANGE_MID: case INSERT_RANGE_END: {
        int v1 = nextv(), v2 = nextv(); std::vector<typename T::Arg> src; src.push_back(T::arg(a1, v1)); src.push_back(T::arg(a1, v2)); std::vector<typename T::M> msrc{T::m(v1), T::m(v2)};
        size_t at = op == INSERT_RANGE_BEGIN ? 0 : op == INSERT_RANGE_MID ? mid : n;
        A.insert(A.begin() + at, src.begin(), src.end()); mA.insert(mA.begin() + at, msrc.begin(), msrc.end()); break; }
      case EMPLACE_MID: v = nextv(); A.emplace(A.begin() + mid, T::arg(a1, v)); mA.emplace(mA.begin() + mid, T::m(v)); break;
      case ERASE_BEGIN: A.erase(A.begin()); mA.erase(mA.begin()); break;
      case ERASE_MID: A.erase(A.begin() + mid); mA.erase(mA.begin() + mid); break;
      case ERASE_LAST: A.erase(A.end() - 1); mA.erase(mA.end() - 1); break;
      case ERASE_RANGE_HEAD: A.erase(A.begin(), A.begin() + mid); mA.erase(mA.begin(), mA.begin() + mid); break;
      case ERASE_RANGE_TAIL: A.erase(A.begin() + mid, A.end()); mA.erase(mA.begin() + mid, mA.end()); break;
      case ERASE_RANGE_ALL: A.erase(A.begin(), A.end()); mA.clear(); break;
      case RESIZE_0: A.resize(0); mA.resize(0); break;
      case RESIZE_1: A.resize(1); mA.resize(1); break;
      case RESIZE_GROW: A.resize(n + 2); mA.resize(n + 2); break;
      case RESIZE_GROW_V: v = nextv(); A.resize(n + 2, T::arg(a1, v)); mA.resize(n + 2, T::m(v)); break;
      case RESERVE_MORE: A.reserve(A.capacity() + 3); break;
      case ASSIGN_0: v = nextv(); A.assign((size_t)0, T::arg(a1, v)); mA.assign(0, T::m(v)); break;
      case ASSIGN_2: v = nextv(); A.assign((size_t)2, T::arg(a1, v)); mA.assign(2, T::m(v)); break;
      case ASSIGN_5: v = nextv(); A.assign((size_t)5, T::arg(a1, v)); mA.assign(5, T::m(v)); break;
      case ASSIGN_RANGE3: { int v1 = nextv(), v2 = nextv(), v3 = nextv(); std::vector<typename T::Arg> src; src.push_back(T::arg(a1, v1)); src.push_back(T::arg(a1, v2)); src.push_back(T::arg(a1, v3));
        A.assign(src.begin(), src.end()); mA = {T::m(v1), T::m(v2), T::m(v3)}; break; }
      case CLEAR: { size_t cap = A.capacity(); A.clear(); mA.clear(); if (A.capacity() != cap) return "clear() changed the capacity"; break; }
      case SWAP_B: A.swap(B); mA.swap(mB); std::swap(floorA, floorB); break;
      case COPY_ASSIGN_FROM_B: A = B; mA = mB; break;
      case COPY_ASSIGN_TO_B: B = A; mB = mA; break;
      case MOVE_ASSIGN_FROM_B: A = std::move(B); mA = std::move(mB); mB.clear(); floorA = 0; floorB = 0; B = SwissVector<typename T::E>(a1); break;
      case MOVE_ASSIGN_FROM_C: A = std::move(C); mA = std::move(mC); mC.clear(); floorA = 0; floorC = 0; C = SwissVector<typename T::E>(a2); break;
      case COPY_ASSIGN_TO_C: C = A; mC = mA; break;
      case B_PUSH_BACK: v = nextv(); B.push_back(T::arg(a1, v)); mB.push_back(T::m(v)); break;
    }
    return "";
  }
  static std::string check_one(const char* who, SwissVector<typename T::E>& x, const std::vector<typename T::M>& m, size_t& floor) {
    if (x.size() != m.size()) return std::string(who) + ": size " + std::to_string(x.size()) + " but std::vector has " + std::to_string(m.size());
    if (!(x.size() <= x.constructed_size() && x.constructed_size() <= x.capacity())) return std::string(who) + ": size <= constructed_size <= capacity does not hold";
    for (size_t i = 0; i < m.size(); i++) if (!T::eq(x[i], m[i])) return std::string(who) + ": element " + std::to_string(i) + " differs from std::vector driven by the same operations";
    if (x.empty() != m.empty()) return std::string(who) + ": empty() disagrees";
    if (!m.empty() && (!T::eq(x.front(), m.front()) || !T::eq(x.back(), m.back()))) return std::string(who) + ": front/back disagree";
    size_t k = 0; for (auto it = x.begin(); it != x.end(); ++it, ++k) if (k >= m.size() || !T::eq(*it, m[k])) return std::string(who) + ": iteration disagrees";
    if (x.capacity() < floor) return std::string(who) + ": capacity shrank from " + std::to_string(floor) + " to " + std::to_string(x.capacity());
    floor = x.capacity();
    return "";
  }
  std::string check() {
    std::string e = check_one("A", A, mA, floorA); if (!e.empty()) return e;
    e = check_one("B", B, mB, floorB); if (!e.empty()) return e;
    return check_one("C", C, mC, floorC);
  }
  std::string one(SwissVector<typename T::E>& x, const std::vector<typename T::M>& m) {
    std::string s = std::to_string(x.size()) + "/" + std::to_string(x.constructed_size()) + "/" + std::to_string(x.capacity()) + "{";
    for (auto& e : m) s += T::show(e) + ",";
    return s + "}";
  }
  std::string canon() { return "A" + one(A, mA) + " B" + one(B, mB) + " C" + one(C, mC) + " v" + std::to_string(vc); }
};


// ---- aliasing arguments: the argument of an insertion refers to an element of the vector itself --------------------------
// std::vector guarantees these work; kept as a separate system so that each failing call is identified on its own.
enum { AL_PUSH, AL_POP, AL_CLEAR, AL_PUSH_BACK_FRONT, AL_EMPLACE_BACK_LAST, AL_INSERT_BEGIN_LAST, AL_INSERT_MID_FRONT, AL_INSERT_END_FRONT, AL_INSERT_N2_MID_FRONT, AL_INSERT_N2_BEGIN_LAST, AL_RESIZE_GROW_FRONT, AL_ASSIGN2_LAST, AL_SELF_ASSIGN, AL_NUM };
static const char* alnames[] = {"push_back(v)", "pop_back", "clear", "push_back(A[0])", "emplace_back(A[last])", "insert(begin,A[last])", "insert(mid,A[0])", "insert(end,A[0])", "insert(mid,2,A[0])", "insert(begin,2,A[last])", "resize(size+2,A[0])", "assign(2,A[last])", "A=A"};
template <class T>
struct AliasSys {
  SwissMemoryResource r1; Alloc a1{r1};
  SwissVector<typename T::E> A{a1}; std::vector<typename T::M> mA; int vc = 0; int last_op = -1;
  static std::string name() { return std::string("ReusableVector<") + T::tname() + "> aliasing arguments"; }
  static int num_ops() { return AL_NUM; }
  static std::string op_name(int op) { return alnames[op]; }
  int nextv() { vc = vc % 3 + 1; return vc; }
  bool enabled(int op) { if (op == AL_PUSH) return mA.size() < 9; if (op == AL_CLEAR) return true; if (mA.size() > 9) return false; return !mA.empty(); }
  std::string apply(int op) {
    last_op = op; size_t n = mA.size(), mid = n / 2; int v;
    switch (op) {
      case AL_PUSH: v = nextv(); A.push_back(T::arg(a1, v)); mA.push_back(T::m(v)); break;
      case AL_POP: A.pop_back(); mA.pop_back(); break;
      case AL_CLEAR: A.clear(); mA.clear(); break;
      case AL_PUSH_BACK_FRONT: A.push_back(A[0]); mA.push_back(mA[0]); break;
      case AL_EMPLACE_BACK_LAST: A.emplace_back(A[n - 1]); mA.emplace_back(mA[n - 1]); break;
      case AL_INSERT_BEGIN_LAST: A.insert(A.begin(), A[n - 1]); mA.insert(mA.begin(), mA[n - 1]); break;
      case AL_INSERT_MID_FRONT: A.insert(A.begin() + mid, A[0]); mA.insert(mA.begin() + mid, mA[0]); break;
      case AL_INSERT_END_FRONT: A.insert(A.end(), A[0]); mA.insert(mA.end(), mA[0]); break;
      case AL_INSERT_N2_MID_FRONT: A.insert(A.begin() + mid, (size_t)2, A[0]); mA.insert(mA.begin() + mid, 2, mA[0]); break;
      case AL_INSERT_N2_BEGIN_LAST: A.insert(A.begin(), (size_t)2, A[n - 1]); mA.insert(mA.begin(), 2, mA[n - 1]); break;
      case AL_RESIZE_GROW_FRONT: A.resize(n + 2, A[0]); mA.resize(n + 2, mA[0]); break;
      case AL_ASSIGN2_LAST: A.assign((size_t)2, A[n - 1]); mA.assign(2, typename T::M(mA[n - 1])); break;
      case AL_SELF_ASSIGN: { auto& self = A; A = self; break; }
    }
    return "";
  }
  std::string check() {
    if (A.size() != mA.size()) return std::string(last_op >= 0 ? alnames[last_op] : "init") + ": size differs from std::vector";
    for (size_t i = 0; i < mA.size(); i++) if (!T::eq(A[i], mA[i])) return std::string(alnames[last_op]) + ": contents differ from std::vector (argument aliased an element of the vector)";
    return "";
  }
  std::string canon() { std::string s = std::to_string(A.size()) + "/" + std::to_string(A.constructed_size()) + "/" + std::to_string(A.capacity()) + "{"; for (auto& e : mA) s += T::show(e) + ","; return s + "} v" + std::to_string(vc); }
};


// ---- ReusableManager: logical clear keeps capacity, accessors survive re-creation, converged workloads take no new memory ----
enum { M_RUN_W1, M_RUN_W2, M_RUN_W3, M_RUN_W4, M_CLEAR, M_NUM };
static const char* mnames[] = {"workload(1 x 5 chars)", "workload(3 x 20 chars)", "workload(6 x 50 chars)", "workload(5,5,60 chars)", "manager.clear()"};
template <int INTERVAL>
struct ManagerSys {
  babylon::SwissManager mgr; babylon::ReusableAccessor<SwissVector<SwissString>> av; babylon::ReusableAccessor<SwissString> as;
  bool dirty = false; size_t idx_len[6] = {0, 0, 0, 0, 0, 0}; size_t str_len = 0; size_t capv = 0, caps = 0; int cycles = 0;   // idx_len[i]: longest string element i ever held
  static std::string name() { return "ReusableManager recreate_interval=" + std::to_string(INTERVAL); }
  static int num_ops() { return M_NUM; }
  static std::string op_name(int op) { return mnames[op]; }
  ManagerSys() {
    mgr.set_recreate_interval(INTERVAL);
    av = mgr.create_object<SwissVector<SwissString>>();
    as = mgr.create_object<SwissString>();
  }
  bool enabled(int op) { if (op == M_CLEAR) return cycles < 12; return !dirty; }
  std::string apply(int op) {
    if (op == M_CLEAR) {
      mgr.clear(); dirty = false; cycles++;
      if (!av || !as) return "accessor became null after clear()";
      if (!av->empty() || !as->empty()) return "after manager.clear() an object is not equal to a freshly constructed one";
      if (av->capacity() < capv || as->capacity() < caps) return "manager.clear() shrank retained capacity (vector " + std::to_string(capv) + "->" + std::to_string(av->capacity()) + ", string " + std::to_string(caps) + "->" + std::to_string(as->capacity()) + ")";
      return "";
    }
    static const int cnt[4] = {1, 3, 6, 3}; static const int lens[4][6] = {{5}, {20, 20, 20}, {50, 50, 50, 50, 50, 50}, {5, 5, 60}};
    int k = op - M_RUN_W1;
    // everything an element (or the string) ever held must still fit without new memory: clearing and re-creation keep capacity
    bool fits = (size_t)lens[k][0] * 2 <= str_len; for (int i = 0; i < cnt[k]; i++) if ((size_t)lens[k][i] > idx_len[i]) fits = false;
    size_t before = mgr.resource().space_used();   // bytes handed out (space_allocated() is page granular and would hide small allocations)
    for (int i = 0; i < cnt[k]; i++) av->emplace_back(std::string((size_t)lens[k][i], (char)('a' + i)));
    as->assign(std::string((size_t)lens[k][0] * 2, 'z'));
    size_t after = mgr.resource().space_used();
    dirty = true;
    if ((int)av->size() != cnt[k]) return "workload result has the wrong size";
    for (int i = 0; i < cnt[k]; i++) if (std::string((*av)[i].data(), (*av)[i].size()) != std::string((size_t)lens[k][i], (char)('a' + i))) return "workload result has wrong contents";
    if (std::string(as->data(), as->size()) != std::string((size_t)lens[k][0] * 2, 'z')) return "string workload result has wrong contents";
    if (fits && after != before) return "a workload whose every element already fitted where it is written again (capacity retained) took " + std::to_string(after - before) + " new bytes from the resource";
    for (int i = 0; i < cnt[k]; i++) if ((size_t)lens[k][i] > idx_len[i]) idx_len[i] = (size_t)lens[k][i];
    if ((size_t)lens[k][0] * 2 > str_len) str_len = (size_t)lens[k][0] * 2;
    // what has to be retained is room for everything the object ever held (growth slack may be compacted away on re-creation)
    if (av->size() > capv) capv = av->size(); if (as->size() > caps) caps = as->size();
    return "";
  }
  std::string check() { return ""; }
  std::string canon() {
    std::string il; for (int i = 0; i < 6; i++) il += std::to_string(idx_len[i]) + ",";
    return "ct=" + std::to_string(mgr._clear_times) + " dirty=" + std::to_string(dirty) + " held=" + il + std::to_string(str_len) + " v=" + std::to_string(av->size()) + "/" + std::to_string(av->constructed_size()) + "/" + std::to_string(av->capacity()) +
           " s=" + std::to_string(as->size()) + "/" + std::to_string(as->capacity()) + " cyc=" + std::to_string(cycles);
  }
};

// ---- the string itself --------------------------------------------------------------------------------------------
enum { S_PUSH, S_APPEND_SHORT, S_APPEND_LONG, S_ASSIGN_SHORT, S_ASSIGN_LONG, S_CLEAR, S_RESIZE_0, S_RESIZE_GROW, S_RESERVE, S_POP, S_INSERT_MID, S_ERASE_MID, S_SWAP, S_COPY_TO_B, S_COPY_FROM_B, S_MOVE_FROM_B, S_NUM };
static const char* snames[] = {"push_back(c)", "append(short)", "append(long)", "assign(short)", "assign(long)", "clear", "resize(0)", "resize(size+3,c)", "reserve(cap+5)", "pop_back", "insert(mid,\"xy\")", "erase(mid,1)", "swap(B)", "B=A", "A=B", "A=move(B)"};
struct StrSys {
  SwissMemoryResource r1; Alloc a1{r1};
  SwissString A{a1}, B{a1}; std::string mA, mB; int vc = 0; size_t floorA = 0, floorB = 0;
  static std::string name() { return "SwissString"; }
  static int num_ops() { return S_NUM; }
  static std::string op_name(int op) { return snames[op]; }
  char nextc() { vc = vc % 3 + 1; return (char)('a' + vc); }
  bool enabled(int op) {
    if (mA.size() > 90 && (op == S_APPEND_LONG || op == S_ASSIGN_LONG || op == S_RESIZE_GROW || op == S_APPEND_SHORT || op == S_PUSH || op == S_INSERT_MID)) return false;
    if (op == S_POP || op == S_ERASE_MID) return !mA.empty();
    return true;
  }
  std::string apply(int op) {
    size_t mid = mA.size() / 2; char c;
    switch (op) {
      case S_PUSH: c = nextc(); A.push_back(c); mA.push_back(c); break;
      case S_APPEND_SHORT: c = nextc(); A.append(2, c); mA.append(2, c); break;
      case S_APPEND_LONG: c = nextc(); A.append(std::string(30, c)); mA.append(std::string(30, c)); break;
      case S_ASSIGN_SHORT: c = nextc(); A.assign(3, c); mA.assign(3, c); break;
      case S_ASSIGN_LONG: c = nextc(); A.assign(std::string(35, c)); mA.assign(std::string(35, c)); break;
      case S_CLEAR: { size_t cap = A.capacity(); A.clear(); mA.clear(); if (A.capacity() < cap) return "clear() shrank the capacity"; break; }
      case S_RESIZE_0: A.resize(0); mA.resize(0); break;
      case S_RESIZE_GROW: c = nextc(); A.resize(mA.size() + 3, c); mA.resize(mA.size() + 3, c); break;
      case S_RESERVE: A.reserve(A.capacity() + 5); break;
      case S_POP: A.pop_back(); mA.pop_back(); break;
      case S_INSERT_MID: A.insert(mid, "xy"); mA.insert(mid, "xy"); break;
      case S_ERASE_MID: A.erase(mid, 1); mA.erase(mid, 1); break;
      case S_SWAP: A.swap(B); mA.swap(mB); std::swap(floorA, floorB); break;
      case S_COPY_TO_B: B = A; mB = mA; break;
      case S_COPY_FROM_B: A = B; mA = mB; break;
      case S_MOVE_FROM_B: A = std::move(B); mA = std::move(mB); mB.clear(); B = SwissString(a1); floorA = floorB = 0; break;
    }
    return "";
  }
  static std::string chk(const char* who, SwissString& x, const std::string& m, size_t& floor) {
    if (x.size() != m.size() || std::string(x.data(), x.size()) != m) return std::string(who) + ": contents differ from std::string driven by the same operations";
    if (x.capacity() < x.size()) return std::string(who) + ": capacity < size";
    if (x.c_str()[x.size()] != 0) return std::string(who) + ": not null terminated";
    if (x.capacity() < floor) return std::string(who) + ": capacity shrank";
    floor = x.capacity();
    return "";
  }
  std::string check() { std::string e = chk("A", A, mA, floorA); if (!e.empty()) return e; return chk("B", B, mB, floorB); }
  std::string canon() { return "A" + std::to_string(A.capacity()) + ":" + mA + " B" + std::to_string(B.capacity()) + ":" + mB + " v" + std::to_string(vc); }
};

static void register_systems() {
  seqx::add<VecSys<IntT>>();
  seqx::add<VecSys<StrT>>();
  seqx::add<VecSys<NestT>>();
  seqx::add<StrSys>();
  // the small systems go deeper: base depth d -> 4d for the manager cycles, d+3 for the aliasing calls
  seqx::add<ManagerSys<1>>([](int d) { return 4 * d; });
  seqx::add<ManagerSys<2>>([](int d) { return 4 * d; });
  seqx::add<ManagerSys<3>>([](int d) { return 4 * d; });
  seqx::add<AliasSys<IntT>>([](int d) { return d + 3; });
  seqx::add<AliasSys<StrT>>([](int d) { return d + 3; });
}
SEQX_MAIN("sq_rvec")
