// sq_queue.cpp — C01 (sequential half): every sequence of the non-blocking queue operations (and the blocking ones where
// they cannot block) against std::deque, including macro operations that really pass 32766 / 32767 laps through the queue so
// that the 16-bit slot version wraps inside the explored histories. Also validates the fast_forward() short cut that
// harness/mc_queue.cpp uses to start concurrent programs just before the wrap: the state reached by really pushing and
// popping must equal the state written directly.
#include <deque>
#include <string>
#include <vector>

#include "babylon/concurrent/bounded_queue.h"
#include "seqx.h"

typedef babylon::ConcurrentBoundedQueue<uint64_t> Queue;

static void fast_forward(Queue& q, size_t laps) {   // keep identical to mc_queue.cpp
  size_t cap = q.capacity();
  q._next_push_index.store(laps * cap, std::memory_order_relaxed); q._next_pop_index.store(laps * cap, std::memory_order_relaxed);
  for (size_t i = 0; i < cap; i++) q._slots.futex(i)._futex.value().store((uint32_t)(uint16_t)(laps << 1), std::memory_order_relaxed);
}

enum { Q_TRY_PUSH, Q_TRY_POP, Q_PUSH, Q_POP, Q_TRY_PUSH_N2, Q_TRY_POP_N2, Q_PUSH_N2, Q_POP_N2, Q_CPUSH_N2, Q_CPOP_N2, Q_NC_TRY_PUSH_N3, Q_NC_TRY_POP_N3, Q_ADV_32766, Q_ADV_32767, Q_CLEAR, Q_SWAP, Q_RESERVE_SAME, Q_RESERVE_TOGGLE, Q_NUM };
static const char* qnames[] = {"try_push", "try_pop", "push", "pop", "try_push_n(2)", "try_pop_n(2)", "push_n(2)", "pop_n(2)", "compensating push_n(2)", "compensating pop_n(2)",
                               "try_push_n<non-concurrent>(3)", "try_pop_n<non-concurrent>(3)", "pass laps through the queue until lap 32766", "pass laps through the queue until lap 32767",
                               "clear", "swap with the second queue", "reserve_and_clear(same capacity)", "reserve_and_clear(other capacity)"};
template <int CAP0, bool EXT = false>
struct QueueSys {
  static constexpr int CAP = CAP0;
  Queue q{CAP}; std::deque<uint64_t> model; uint64_t next = 1; size_t lap_base = 0; bool advanced = false;
  Queue q2{CAP}; std::deque<uint64_t> model2; int swaps = 0, resizes = 0;   // the second queue only takes part in swap(): whatever it holds comes back with the next swap
  size_t cap() const { return q.capacity(); }
  static std::string name() { return "ConcurrentBoundedQueue capacity " + std::to_string(CAP) + (EXT ? " with clear/swap/reserve_and_clear" : ""); }
  static int num_ops() { return EXT ? Q_NUM : Q_CLEAR; }
  static std::string op_name(int op) { return qnames[op]; }
  bool enabled(int op) {
    size_t n = model.size(); const size_t CAP = cap();
    switch (op) {
      case Q_PUSH: return n < (size_t)CAP;
      case Q_POP: return n >= 1;
      case Q_PUSH_N2: return n + 2 <= (size_t)CAP;
      case Q_POP_N2: return n >= 2;
      case Q_CPUSH_N2: case Q_CPOP_N2: return CAP >= 2;
      case Q_ADV_32766: case Q_ADV_32767: return !advanced && n == 0 && q._next_push_index.load() % CAP == 0;
      case Q_SWAP: return swaps < 2;            // bounds keep the reachable state space finite
      case Q_RESERVE_TOGGLE: return resizes < 2;
      default: return true;
    }
  }
  std::string apply(int op) {
    typedef Queue::Iterator It; const size_t CAP = cap();
    std::vector<uint64_t> got; size_t want_push = 0, want_pop = 0, done = 0; bool ok = true;
    auto pushcb = [&](It b, It e) { for (; b != e; ++b) { *b = next; model.push_back(next); next++; done++; } };
    auto popcb = [&](It b, It e) { for (; b != e; ++b) { got.push_back(*b); done++; } };
    size_t n = model.size(), room = (size_t)CAP - n;
    switch (op) {
      case Q_TRY_PUSH: { uint64_t v = next; ok = q.try_push<true, true>([&](uint64_t& s) { s = v; }); if (ok != (room >= 1)) return "try_push result is wrong for a queue holding " + std::to_string(n); if (ok) { model.push_back(v); next++; } break; }
      case Q_TRY_POP: { uint64_t v = 0; ok = q.try_pop<true, true>([&](uint64_t& s) { v = s; }); if (ok != (n >= 1)) return "try_pop result is wrong for a queue holding " + std::to_string(n); if (ok) got.push_back(v); break; }
      case Q_PUSH: { uint64_t v = next++; q.push<true, true, true>([&](uint64_t& s) { s = v; }); model.push_back(v); break; }
      case Q_POP: { uint64_t v = 0; q.pop<true, true, true>([&](uint64_t& s) { v = s; }); got.push_back(v); break; }
      case Q_TRY_PUSH_N2: want_push = room < 2 ? room : 2; q.try_push_n<true, true>(pushcb, 2); if (done != want_push) return "try_push_n(2) pushed " + std::to_string(done) + " with room for " + std::to_string(room); break;
      case Q_TRY_POP_N2: want_pop = n < 2 ? n : 2; q.try_pop_n<true, true>(popcb, 2); if (done != want_pop) return "try_pop_n(2) popped " + std::to_string(done) + " of " + std::to_string(n); break;
      case Q_PUSH_N2: q.push_n<true, true, true>(pushcb, 2); break;
      case Q_POP_N2: q.pop_n<true, true, true>(popcb, 2); break;
      case Q_NC_TRY_PUSH_N3: want_push = room < 3 ? room : 3; q.try_push_n<false, false>(pushcb, 3); if (done != want_push) return "try_push_n<non-concurrent>(3) pushed " + std::to_string(done) + " with room for " + std::to_string(room); break;
      case Q_NC_TRY_POP_N3: want_pop = n < 3 ? n : 3; q.try_pop_n<false, false>(popcb, 3); if (done != want_pop) return "try_pop_n<non-concurrent>(3) popped " + std::to_string(done) + " of " + std::to_string(n); break;
      case Q_CPUSH_N2: {
        // compensating push: when the queue is full the caller itself pops the oldest elements to make room
        std::vector<uint64_t> evicted;
        q.push_n([&](It b, It e) { for (; b != e; ++b) { *b = next; model.push_back(next); next++; } }, [&](It b, It e) { for (; b != e; ++b) evicted.push_back(*b); }, 2);
        for (uint64_t v : evicted) { if (model.empty() || model.front() != v) return "compensating push_n evicted something that is not the oldest element"; model.pop_front(); }
        if (model.size() > (size_t)CAP) return "compensating push_n left more elements than the capacity";
        break;
      }
      case Q_CPOP_N2: {
        // compensating pop: when the queue is empty the caller itself pushes (here: fresh values) and pops them
        q.pop_n(popcb, [&](It b, It e) { for (; b != e; ++b) { *b = next; model.push_back(next); next++; } }, 2);
        if (got.size() != 2) return "compensating pop_n(2) delivered " + std::to_string(got.size()) + " elements";
        break;
      }
      case Q_ADV_32766: case Q_ADV_32767: {
        size_t target = op == Q_ADV_32766 ? 32766 : 32767; size_t lap = q._next_push_index.load() / CAP;
        for (; lap < target; lap++) for (size_t i = 0; i < CAP; i++) { uint64_t v = 7, r = 0; q.push<true, true, true>(v); q.pop<true, true, true>(r); if (r != 7) return "an element changed on its way through the queue"; }
        advanced = true;
        // differential: the state reached by really running equals the state written by fast_forward()
        Queue fresh{CAP}; fast_forward(fresh, target);
        if (fresh._next_push_index.load() != q._next_push_index.load() || fresh._next_pop_index.load() != q._next_pop_index.load()) return "fast_forward() does not reproduce the tickets of a queue that really ran " + std::to_string(target) + " laps";
        for (size_t i = 0; i < CAP; i++) if (fresh._slots.futex(i)._futex.value().load() != q._slots.futex(i)._futex.value().load()) return "fast_forward() does not reproduce the slot words of a queue that really ran " + std::to_string(target) + " laps";
        break;
      }
      case Q_CLEAR: q.clear(); model.clear(); if (q.size() != 0) return "clear() left elements behind"; break;
      case Q_SWAP: q.swap(q2); model.swap(model2); swaps++; break;
      case Q_RESERVE_SAME: { size_t c = q.reserve_and_clear(CAP); model.clear(); if (c != CAP || q.capacity() != CAP) return "reserve_and_clear(capacity()) changed the capacity"; break; }
      case Q_RESERVE_TOGGLE: {
        // to twice the template capacity and back: the slot vector is rebuilt, tickets and slot versions start again
        size_t want = CAP == (size_t)CAP0 ? 2 * CAP0 : CAP0; size_t c = q.reserve_and_clear(want == 2u * CAP0 ? want - (want > 2 ? 1 : 0) : want); model.clear(); resizes++;   // min_capacity is rounded up to a power of two
        if (c != want || q.capacity() != want) return "reserve_and_clear(" + std::to_string(want) + ") gave capacity " + std::to_string(c);
        if (q._next_push_index.load() != 0 || q._next_pop_index.load() != 0) return "reserve_and_clear with a new capacity did not restart the tickets";
        break;
      }
    }
    for (uint64_t v : got) { if (model.empty()) return "popped a value from a queue the reference says is empty"; if (model.front() != v) return "popped " + std::to_string(v) + " but the oldest element is " + std::to_string(model.front()); model.pop_front(); }
    return "";
  }
  std::string check() {
    if (q.size() != model.size()) return "size() = " + std::to_string(q.size()) + " but the reference holds " + std::to_string(model.size());
    if (q2.size() != model2.size()) return "second queue: size() = " + std::to_string(q2.size()) + " but the reference holds " + std::to_string(model2.size());
    return "";
  }
  std::string canon() {
    const size_t CAP = cap();
    std::string s = "n=" + std::to_string(model.size()) + " pushslot=" + std::to_string(q._next_push_index.load() % CAP) + " lap=" + std::to_string(q._next_push_index.load() / CAP) + " poplap=" + std::to_string(q._next_pop_index.load() / CAP) + " cap=" + std::to_string(CAP) +
                    " | q2 n=" + std::to_string(model2.size()) + " push=" + std::to_string(q2._next_push_index.load()) + " pop=" + std::to_string(q2._next_pop_index.load()) + " cap=" + std::to_string(q2.capacity()) + " swaps=" + std::to_string(swaps) + " resizes=" + std::to_string(resizes) + " adv=" + std::to_string(advanced);
    return s;
  }
};

static void register_systems() {
  seqx::add<QueueSys<1>>();
  seqx::add<QueueSys<2>>();
  seqx::add<QueueSys<4>>();
  // the same alphabet plus clear(), swap() with a second queue and reserve_and_clear() to the same / another capacity: one step
  // shallower, the second queue and the capacity multiply the state space
  auto shallower = [](int d) { return d > 2 ? d - 1 : d; };
  seqx::add<QueueSys<1, true>>(shallower);
  seqx::add<QueueSys<2, true>>(shallower);
  seqx::add<QueueSys<4, true>>(shallower);
}
SEQX_MAIN("sq_queue")
