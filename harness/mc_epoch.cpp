// mc_epoch.cpp — C09: Epoch. A writer unlinks an object, takes a tick and reclaims it iff low_water_mark() has reached
// the tick; readers dereference the shared cell inside critical regions. Store-buffer delays (TSO) are the point.
#include <atomic>
#include <thread>
#include <vector>

#include "babylon/concurrent/epoch.h"
#include "bbmc.h"

using babylon::Epoch;

struct Obj { std::atomic<int> payload; int freed; Obj(int p, int f) : payload(p), freed(f) {} };  // payload is read atomically: a scheduling point between obtaining the pointer and using it
static const char* names[] = {
    "thread-local style: reader || writer",
    "accessor style: reader || reader || writer",
    "thread-local style, nested regions (depth 2): reader || writer",
    "accessor style: reader created and locked while the writer scans",
    "accessor style: accessor locked in one thread, moved, unlocked in another",
    "thread-local style: reader thread born while the writer scans",
    "accessor style: two writers, one reader",
    "thread-local style: a nested region entered after the pointer was read (the epoch may have advanced): reader || writer",
    "accessor style: a nested region entered after the pointer was read: reader || writer",
};
int harness_configs() { return sizeof(names) / sizeof(names[0]); }
const char* harness_config_name(int c) { return names[c]; }
const char* harness_name() { return "mc_epoch"; }

struct World {
  Epoch epoch;
  std::atomic<Obj*> cell{nullptr};
  World() { cell.store(new Obj(1, 0), std::memory_order_relaxed); }
};
static void use(Obj* p) {
  int v = p->payload.load(std::memory_order_relaxed);  // the freed-memory oracle fires here if the object was reclaimed
  bbmc::check(!bbmc::is_freed(p) && p->freed == 0 && v > 0, "a reader inside its critical region read a reclaimed object");
}
static void reclaim(Obj* p) { p->freed = 1; delete p; }
// writer protocol (the one GarbageCollector uses): unlink, tick, reclaim iff low water mark reached the tick
static void writer(World& w, int payload) {
  Obj* fresh = new Obj(payload, 0);
  Obj* old = w.cell.exchange(fresh, std::memory_order_acq_rel);
  uint64_t v = w.epoch.tick();
  if (w.epoch.low_water_mark() >= v) reclaim(old);
  // else: left for a later pass (leak is fine for the property)
}

void harness_main(int cfg) {
  World w;
  std::vector<std::thread> ts;
  switch (cfg) {
    case 0:
      ts.emplace_back([&] { w.epoch.lock(); Obj* p = w.cell.load(std::memory_order_acquire); use(p); w.epoch.unlock(); });
      ts.emplace_back([&] { writer(w, 2); });
      break;
    case 1: {
      auto reader = [&] { auto a = w.epoch.create_accessor(); a.lock(); Obj* p = w.cell.load(std::memory_order_acquire); use(p); a.unlock(); };
      ts.emplace_back(reader); ts.emplace_back(reader);
      ts.emplace_back([&] { auto a = w.epoch.create_accessor(); writer(w, 2); });
      break;
    }
    case 2:
      ts.emplace_back([&] { w.epoch.lock(); w.epoch.lock(); Obj* p = w.cell.load(std::memory_order_acquire); w.epoch.unlock(); use(p); w.epoch.unlock(); });
      ts.emplace_back([&] { writer(w, 2); });
      break;
    case 3: {
      auto a0 = w.epoch.create_accessor();  // keeps accessor style in force
      ts.emplace_back([&] { auto a = w.epoch.create_accessor(); a.lock(); Obj* p = w.cell.load(std::memory_order_acquire); use(p); a.unlock(); a.release(); });
      ts.emplace_back([&] { writer(w, 2); });
      for (auto& t : ts) t.join();
      ts.clear();
      a0.release();
      break;
    }
    case 4: {
      Epoch::Accessor shared; std::atomic<int> stage{0}; Obj* held = nullptr;
      ts.emplace_back([&] { auto a = w.epoch.create_accessor(); a.lock(); held = w.cell.load(std::memory_order_acquire); shared = std::move(a); stage.store(1, std::memory_order_release); });
      ts.emplace_back([&] { while (stage.load(std::memory_order_acquire) != 1) sched_yield(); use(held); shared.unlock(); shared.release(); });
      ts.emplace_back([&] { auto a = w.epoch.create_accessor(); writer(w, 2); });
      for (auto& t : ts) t.join();
      ts.clear();
      break;
    }
    case 5: {
      // main has used the epoch in thread-local style before, so slots exist; the reader thread gets a fresh slot while the scan runs
      w.epoch.lock(); w.epoch.unlock();
      ts.emplace_back([&] { writer(w, 2); });
      ts.emplace_back([&] { w.epoch.lock(); Obj* p = w.cell.load(std::memory_order_acquire); use(p); w.epoch.unlock(); });
      break;
    }
    case 6: {
      ts.emplace_back([&] { auto a = w.epoch.create_accessor(); a.lock(); Obj* p = w.cell.load(std::memory_order_acquire); use(p); a.unlock(); });
      ts.emplace_back([&] { auto a = w.epoch.create_accessor(); writer(w, 2); });
      ts.emplace_back([&] { auto a = w.epoch.create_accessor(); writer(w, 3); });
      break;
    }
    case 7: case 8: {
      // the handshake only forces "outer lock + read" -> "unlink + tick" -> "nested lock"; everything after is left to the scheduler
      std::atomic<int> stage{0};
      auto wait_for = [&](int k) { while (stage.load(std::memory_order_acquire) != k) sched_yield(); };
      if (cfg == 7) ts.emplace_back([&] { w.epoch.lock(); Obj* p = w.cell.load(std::memory_order_acquire); stage.store(1, std::memory_order_release); wait_for(2); w.epoch.lock(); use(p); w.epoch.unlock(); use(p); w.epoch.unlock(); });
      else ts.emplace_back([&] { auto a = w.epoch.create_accessor(); a.lock(); Obj* p = w.cell.load(std::memory_order_acquire); stage.store(1, std::memory_order_release); wait_for(2); a.lock(); use(p); a.unlock(); use(p); a.unlock(); });
      ts.emplace_back([&] {
        auto a = cfg == 8 ? w.epoch.create_accessor() : Epoch::Accessor();
        wait_for(1);
        Obj* fresh = new Obj(2, 0); Obj* old = w.cell.exchange(fresh, std::memory_order_acq_rel); uint64_t v = w.epoch.tick();
        stage.store(2, std::memory_order_release);
        if (w.epoch.low_water_mark() >= v) reclaim(old);
      });
      for (auto& t : ts) t.join();
      ts.clear();
      break;
    }
  }
  for (auto& t : ts) t.join();
  // every region is closed and every accessor released: nothing may hold the mark back
  bbmc::check(w.epoch.low_water_mark() == UINT64_MAX, "an unlocked or released accessor/thread still holds the low water mark back");
  Obj* last = w.cell.load(); bbmc::check(!bbmc::is_freed(last) && last->freed == 0, "the object still linked in the cell was reclaimed");
}
