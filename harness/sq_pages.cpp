// sq_pages.cpp — C17 (sequential half): every allocate/deallocate history of the cached / batch / counting page
// allocators and every pop/push history of ObjectPool (strict and auto-creating) up to a depth, against conservation
// and ownership bookkeeping. The concurrent half is harness/mc_pages.cpp.
#include <memory>
#include <set>
#include <string>
#include <vector>

#include "babylon/concurrent/object_pool.h"
#include "babylon/reusable/page_allocator.h"
#include "seqx.h"

using babylon::PageAllocator;

// recording upstream: pages are never reused, so "already returned" stays recognisable
struct Upstream : public PageAllocator {
  std::vector<std::unique_ptr<char[]>> store; std::set<void*> out; std::set<void*> dead; std::string error; size_t handed = 0, returned = 0;
  size_t page_size() const noexcept override { return 64; }
  using PageAllocator::allocate; using PageAllocator::deallocate;
  void allocate(void** ps, size_t n) noexcept override { for (size_t i = 0; i < n; i++) { store.emplace_back(new char[64]); ps[i] = store.back().get(); out.insert(ps[i]); handed++; } }
  void deallocate(void** ps, size_t n) noexcept override {
    for (size_t i = 0; i < n; i++) {
      if (!out.erase(ps[i])) { if (error.empty()) error = dead.count(ps[i]) ? "a page was returned upstream twice" : "a foreign pointer was returned upstream"; continue; }
      dead.insert(ps[i]); returned++;
    }
  }
};

enum { P_A1, P_A2, P_A3, P_F1, P_F2, P_F3, P_NUM };
static const char* pnames[] = {"allocate 1", "allocate 2", "allocate 3", "deallocate 1 (oldest held)", "deallocate 2 (oldest held)", "deallocate 3 (oldest held)"};

template <class A, int PARAM>
struct PageSys {
  Upstream up; std::unique_ptr<A> al; std::vector<void*> held; std::string canon_s;
  static std::string name();
  static int num_ops() { return P_NUM; }
  static std::string op_name(int op) { return pnames[op]; }
  void configure();
  size_t cached();
  PageSys() { al.reset(new A); configure(); recanon(); }
  bool enabled(int op) { if (op <= P_A3) return held.size() + (size_t)(op - P_A1 + 1) <= 6; return held.size() >= (size_t)(op - P_F1 + 1); }
  void recanon() { canon_s = "held=" + std::to_string(held.size()) + " cached=" + std::to_string(cached()) + " out=" + std::to_string(up.out.size()); }
  std::string apply(int op) {
    if (op <= P_A3) {
      size_t n = (size_t)(op - P_A1 + 1); void* ps[3] = {nullptr, nullptr, nullptr};
      if (n == 1) ps[0] = al->allocate(); else al->allocate(ps, n);
      for (size_t i = 0; i < n; i++) {
        if (!up.out.count(ps[i])) return up.dead.count(ps[i]) ? "allocate handed out a page that was already returned upstream" : "allocate handed out something that is not a page of the upstream";
        for (void* h : held) if (h == ps[i]) return "allocate handed out a page that a caller still holds";
        held.push_back(ps[i]);
      }
    } else {
      size_t n = (size_t)(op - P_F1 + 1); void* ps[3];
      for (size_t i = 0; i < n; i++) { ps[i] = held.front(); held.erase(held.begin()); }
      if (n == 1) al->deallocate(ps[0]); else al->deallocate(ps, n);
    }
    if (!up.error.empty()) return up.error;
    if (up.out.size() != held.size() + cached()) return "pages obtained from upstream minus pages returned (" + std::to_string(up.out.size()) + ") differs from pages held (" + std::to_string(held.size()) + ") plus pages cached (" + std::to_string(cached()) + ")";
    recanon();
    return "";
  }
  std::string check() {
    // destroy the allocator while pages are still held: exactly the cache goes back upstream
    size_t h = held.size();
    al.reset();
    if (!up.error.empty()) return up.error;
    if (up.out.size() != h) return "destroying the allocator left " + std::to_string(up.out.size() - h) + " cached page(s) outstanding (or returned held ones)";
    for (void* p : held) if (!up.out.count(p)) return "destroying the allocator returned a page that a caller still holds";
    return "";
  }
  std::string canon() { return canon_s; }
};
template <> std::string PageSys<babylon::CachedPageAllocator, 1>::name() { return "CachedPageAllocator capacity 1"; }
template <> std::string PageSys<babylon::CachedPageAllocator, 2>::name() { return "CachedPageAllocator capacity 2"; }
template <> std::string PageSys<babylon::CachedPageAllocator, 4>::name() { return "CachedPageAllocator capacity 4"; }
template <> void PageSys<babylon::CachedPageAllocator, 1>::configure() { al->set_upstream(up); al->set_free_page_capacity(1); }
template <> void PageSys<babylon::CachedPageAllocator, 2>::configure() { al->set_upstream(up); al->set_free_page_capacity(2); }
template <> void PageSys<babylon::CachedPageAllocator, 4>::configure() { al->set_upstream(up); al->set_free_page_capacity(4); }
template <> size_t PageSys<babylon::CachedPageAllocator, 1>::cached() { return al->free_page_num(); }
template <> size_t PageSys<babylon::CachedPageAllocator, 2>::cached() { return al->free_page_num(); }
template <> size_t PageSys<babylon::CachedPageAllocator, 4>::cached() { return al->free_page_num(); }
// the batch allocator keeps its prefetched pages in a thread-local slot: read the slot of this thread
static size_t batch_cached(babylon::BatchPageAllocator& a) { size_t n = 0; a._cache.for_each([&](babylon::BatchPageAllocator::Slot* b, babylon::BatchPageAllocator::Slot* e) { for (; b != e; ++b) n += (size_t)(b->buffer.end() - b->next_page); }); return n; }
template <> std::string PageSys<babylon::BatchPageAllocator, 2>::name() { return "BatchPageAllocator batch 2"; }
template <> std::string PageSys<babylon::BatchPageAllocator, 3>::name() { return "BatchPageAllocator batch 3"; }
template <> std::string PageSys<babylon::BatchPageAllocator, 16>::name() { return "BatchPageAllocator default batch"; }
template <> void PageSys<babylon::BatchPageAllocator, 2>::configure() { al->set_upstream(up); al->set_batch_size(2); }
template <> void PageSys<babylon::BatchPageAllocator, 3>::configure() { al->set_upstream(up); al->set_batch_size(3); }
template <> void PageSys<babylon::BatchPageAllocator, 16>::configure() { al->set_upstream(up); }
template <> size_t PageSys<babylon::BatchPageAllocator, 2>::cached() { return batch_cached(*al); }
template <> size_t PageSys<babylon::BatchPageAllocator, 3>::cached() { return batch_cached(*al); }
template <> size_t PageSys<babylon::BatchPageAllocator, 16>::cached() { return batch_cached(*al); }
// counting over cached
struct CountingStack : public PageAllocator {
  babylon::CachedPageAllocator cached; babylon::CountingPageAllocator counting;
  CountingStack() { counting.set_upstream(cached); }
  size_t page_size() const noexcept override { return counting.page_size(); }
  using PageAllocator::allocate; using PageAllocator::deallocate;
  void allocate(void** p, size_t n) noexcept override { counting.allocate(p, n); }
  void deallocate(void** p, size_t n) noexcept override { counting.deallocate(p, n); }
};
template <> std::string PageSys<CountingStack, 2>::name() { return "CountingPageAllocator over CachedPageAllocator capacity 2"; }
template <> void PageSys<CountingStack, 2>::configure() { al->cached.set_upstream(up); al->cached.set_free_page_capacity(2); }
template <> size_t PageSys<CountingStack, 2>::cached() { return al->cached.free_page_num(); }

// ---- object pools ------------------------------------------------------------------------------------------------
struct Obj { int id; int recycled = 0; int* alive; Obj(int i, int* a) : id(i), alive(a) { ++*alive; } ~Obj() { --*alive; } };   // counter per system: histories are replayed by several threads
enum { O_POP, O_TRY_POP, O_RELEASE_OLDEST, O_RELEASE_NEWEST, O_PUSH_BACK_OLDEST, O_NUM };
static const char* onames[] = {"pop", "try_pop", "drop oldest handle", "drop newest handle", "push(move(oldest handle))"};
template <bool AUTO, int CAP>
struct PoolSys {
  babylon::ObjectPool<Obj> pool; std::vector<std::unique_ptr<Obj, babylon::ObjectPool<Obj>::Deleter>> handles; int created = 0, recycles = 0; int injected = 0; int alive = 0; std::string canon_s;
  static std::string name() { return std::string(AUTO ? "ObjectPool auto-creating capacity " : "ObjectPool strict capacity ") + std::to_string(CAP); }
  static int num_ops() { return O_NUM; }
  static std::string op_name(int op) { return onames[op]; }
  PoolSys() {
    pool.reserve_and_clear(CAP);
    pool.set_recycler([this](Obj& o) { o.recycled++; recycles++; });
    if (AUTO) pool.set_creator([this] { return std::unique_ptr<Obj>(new Obj(++created, &alive)); });
    else for (int i = 0; i < CAP; i++) { pool.push(std::unique_ptr<Obj>(new Obj(++created, &alive))); injected++; }
    recycles = 0;
    recanon();
  }
  void recanon() { canon_s = "out=" + std::to_string(handles.size()) + " free=" + std::to_string(pool.free_object_number()) + " alive=" + std::to_string(alive); }
  bool enabled(int op) {
    if (op == O_POP) return AUTO ? handles.size() < 4 : pool.free_object_number() > 0;   // a strict pool blocks when empty: not a sequential operation
    if (op == O_TRY_POP) return handles.size() < 4;
    return !handles.empty();
  }
  std::string apply(int op) {
    size_t free_before = pool.free_object_number(); int rec_before = recycles; int alive_before = alive;
    if (op == O_POP || op == O_TRY_POP) {
      auto h = op == O_POP ? pool.pop() : pool.try_pop();
      if (op == O_TRY_POP && free_before == 0) { if (h) return "try_pop on an empty pool returned an object"; recanon(); return ""; }
      if (!h) return "pop returned nothing although an object was available (or could be created)";
      for (auto& o : handles) if (o.get() == h.get()) return "pop handed out an object that another handle still owns";
      handles.push_back(std::move(h));
    } else {
      size_t k = op == O_RELEASE_NEWEST ? handles.size() - 1 : 0;
      auto h = std::move(handles[k]); handles.erase(handles.begin() + (long)k);
      if (op == O_PUSH_BACK_OLDEST) pool.push(std::move(h)); else h.reset();
      if (recycles != rec_before + 1) return "the recycler ran " + std::to_string(recycles - rec_before) + " times for one returned object";
      if (AUTO && free_before >= (size_t)CAP) { if (alive != alive_before - 1) return "an object returned to a full auto-creating pool was not destroyed"; if (pool.free_object_number() != free_before) return "an overflowing return changed the number of free objects"; }
      else if (pool.free_object_number() != free_before + 1) return "a returned object did not become available again";
    }
    if (!AUTO && (int)handles.size() > injected) return "more objects are outstanding than were injected into the strict pool";
    if (alive != (int)handles.size() + (int)pool.free_object_number()) return "objects alive (" + std::to_string(alive) + ") differ from outstanding + free: an object leaked or was destroyed while owned";
    recanon();
    return "";
  }
  std::string check() { return ""; }
  std::string canon() { return canon_s; }
};

static void register_systems() {
  seqx::add<PageSys<babylon::CachedPageAllocator, 1>>();
  seqx::add<PageSys<babylon::CachedPageAllocator, 2>>();
  seqx::add<PageSys<babylon::CachedPageAllocator, 4>>();
  seqx::add<PageSys<babylon::BatchPageAllocator, 2>>();
  seqx::add<PageSys<babylon::BatchPageAllocator, 3>>();
  seqx::add<PageSys<babylon::BatchPageAllocator, 16>>();
  seqx::add<PageSys<CountingStack, 2>>();
  seqx::add<PoolSys<false, 1>>();
  seqx::add<PoolSys<false, 2>>();
  seqx::add<PoolSys<true, 1>>();
  seqx::add<PoolSys<true, 2>>();
}
SEQX_MAIN("sq_pages")
