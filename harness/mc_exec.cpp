// mc_exec.cpp — C07: executors. An accepted task runs exactly once, inside its executor; stop() drains submitted work.
#include <atomic>
#include <thread>
#include <vector>

#include "babylon/executor.h"
#include "bbmc.h"

using babylon::AlwaysUseNewThreadExecutor;
using babylon::Executor;
using babylon::Future;
using babylon::InplaceExecutor;
using babylon::MoveOnlyFunction;
using babylon::ThreadPoolExecutor;

struct Cfg { const char* name; int kind; int workers, gcap, lcap; bool steal; int balance; int submitters, tasks; bool child; int first_thread_id = 0; };
// kind 0: thread pool, 1: inplace, 2: always-new-thread, 3: executor whose invoke may fail
static const Cfg cfgs[] = {
    {"pool w1 g1 l0: 1 submitter x2 tasks", 0, 1, 1, 0, false, -1, 1, 2, false},
    {"pool w2 g1 l0: 2 submitters x1 task", 0, 2, 1, 0, false, -1, 2, 1, false},
    {"pool w1 g2 l1: 1 submitter x1 task that spawns a child into the local queue", 0, 1, 2, 1, false, -1, 1, 1, true},
    {"pool w2 g2 l1 stealing: 1 submitter x2 tasks, each spawns a child", 0, 2, 2, 1, true, -1, 1, 2, true},
    {"pool w1 g2 l1 balance thread (interval 0): 1 submitter x1 task with child", 0, 1, 2, 1, false, 0, 1, 1, true},
    {"pool w2 g1 l0: queue-full blocking, 1 submitter x3 tasks", 0, 2, 1, 0, false, -1, 1, 3, false},
    {"inplace executor: task and nested child", 1, 0, 0, 0, false, -1, 1, 2, true},
    {"always-new-thread executor: 2 tasks then join()", 2, 0, 0, 0, false, -1, 1, 2, false},
    {"executor whose invoke may fail on any attempt: 3 submissions", 3, 0, 0, 0, false, -1, 1, 3, false},
    {"pool w2 g2 l1 stealing, worker thread ids 127 and 128 (local queues in two storage blocks): 1 submitter x2 tasks, each spawns a child", 0, 2, 2, 1, true, -1, 1, 2, true, 127},
    {"pool w2 g4 l2 stealing, worker thread ids 127 and 128: 1 submitter x1 task that spawns a child", 0, 2, 4, 2, true, -1, 1, 1, true, 127},
};
int harness_configs() { return sizeof(cfgs) / sizeof(cfgs[0]); }
const char* harness_config_name(int c) { return cfgs[c].name; }
const char* harness_name() { return "mc_exec"; }

struct FlakyExecutor : public Executor {
  std::atomic<int> refused{0};
  int invoke(MoveOnlyFunction<void(void)>&& function) noexcept override {
    if (bbmc::choose(2, true) == 1) { refused.fetch_add(1, std::memory_order_relaxed); return -1; }
    RunnerScope scope {*this};
    function();
    return 0;
  }
};

struct Counters { std::atomic<int> runs[8]; std::atomic<int> outside[8]; Counters() { for (int i = 0; i < 8; i++) { runs[i] = 0; outside[i] = 0; } } };

void harness_main(int c) {
  const Cfg& cf = cfgs[c];
  bbmc::sleeps_advance_clock(false);
  Counters cn; bbmc::background(&cn, sizeof cn);
  Future<int> fut[8]; Future<int> childfut[8]; bool have_child[8] = {false, false, false, false, false, false, false, false};
  int ntasks = cf.submitters * cf.tasks;
  auto make_task = [&](Executor& ex, int id) {
    return [&cn, &ex, &cf, &childfut, &have_child, id]() -> int {
      cn.runs[id].fetch_add(1, std::memory_order_relaxed);
      if (!ex.is_running_in()) cn.outside[id].fetch_add(1, std::memory_order_relaxed);
      if (cf.child) {
        int cid = id + 4;
        childfut[id] = ex.execute([&cn, &ex, cid]() -> int { cn.runs[cid].fetch_add(1, std::memory_order_relaxed); if (!ex.is_running_in()) cn.outside[cid].fetch_add(1, std::memory_order_relaxed); return cid * 10; });
        have_child[id] = true;
      }
      return id * 10 + 1;
    };
  };
  auto submit_all = [&](Executor& ex) {
    std::vector<std::thread> subs;
    for (int s = 0; s < cf.submitters; s++) subs.emplace_back([&, s] { for (int t = 0; t < cf.tasks; t++) { int id = s * cf.tasks + t; fut[id] = ex.execute(make_task(ex, id)); } });
    for (auto& t : subs) t.join();
  };
  auto final_checks = [&](bool all_accepted) {
    for (int id = 0; id < ntasks; id++) {
      if (all_accepted) bbmc::check(fut[id].valid(), "submission to a healthy executor reported failure");
      if (!fut[id].valid()) { bbmc::check(cn.runs[id].load() == 0, "a task whose submission failed was run"); continue; }
      bbmc::check(cn.runs[id].load() == 1, cn.runs[id].load() == 0 ? "an accepted task had not run when stop()/join() returned" : "an accepted task ran more than once");
      bbmc::check(cn.outside[id].load() == 0, "a task did not observe itself as running in its executor");
      bbmc::check(fut[id].ready() && fut[id].get() == id * 10 + 1, "the future of an accepted task is not ready with the callable's result after stop()/join()");
      if (cf.child) {
        bbmc::check(have_child[id] && childfut[id].valid(), "child submission from inside a task failed");
        bbmc::check(cn.runs[id + 4].load() == 1 && childfut[id].ready() && childfut[id].get() == (id + 4) * 10, "a task spawned from inside a task had not finished (exactly once) when stop() returned");
        bbmc::check(cn.outside[id + 4].load() == 0, "a child task did not observe itself as running in its executor");
      }
    }
  };
  if (cf.first_thread_id) {
    // start from a process in which many threads already exist: the pool's per-thread queues then live in different 128-entry
    // blocks of the enumerable thread-local storage (ids are taken for real, through the allocator the pool uses)
    auto& ids = babylon::internal::concurrent_id_allocator::IdAllocatorFotType<ThreadPoolExecutor::TaskQueue, false>::instance();
    for (int i = 0; i < cf.first_thread_id; i++) ids.allocate();
  }
  switch (cf.kind) {
    case 0: {
      {
        ThreadPoolExecutor ex;
        ex.set_worker_number(cf.workers); ex.set_global_capacity(cf.gcap); ex.set_local_capacity(cf.lcap); ex.set_enable_work_stealing(cf.steal);
        if (cf.balance >= 0) ex.set_balance_interval(std::chrono::microseconds(cf.balance));
        bbmc::require(ex.start() == 0, "start");
        bbmc::check(!ex.is_running_in(), "main thread claims to run inside the pool");
        submit_all(ex);
        ex.stop();
        final_checks(true);
      }
      break;
    }
    case 1: {
      auto& ex = InplaceExecutor::instance();
      submit_all(ex);
      final_checks(true);
      break;
    }
    case 2: {
      auto& ex = AlwaysUseNewThreadExecutor::instance();
      submit_all(ex);
      ex.join();
      final_checks(true);
      break;
    }
    case 3: {
      FlakyExecutor ex; bbmc::background(&ex.refused, sizeof ex.refused);
      submit_all(ex);
      final_checks(false);
      int invalid = 0; for (int id = 0; id < ntasks; id++) if (!fut[id].valid()) invalid++;
      bbmc::check(invalid == ex.refused.load(), "the number of invalid futures differs from the number of refused submissions");
      bbmc::observe(invalid);
      break;
    }
  }
}
