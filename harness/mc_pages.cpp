// mc_pages.cpp — C17: page allocators (cached / batch / counting) and ObjectPool under the bbmc scheduler.
#include <atomic>
#include <memory>
#include <thread>
#include <vector>

#include "babylon/concurrent/object_pool.h"
#include "babylon/reusable/page_allocator.h"
#include "bbmc.h"

using babylon::BatchPageAllocator;
using babylon::CachedPageAllocator;
using babylon::CountingPageAllocator;
using babylon::ObjectPool;
using babylon::PageAllocator;

// ---- recording upstream: pages are never reused inside one execution, so "already returned" is recognisable ---------
struct Upstream : public PageAllocator {
  static const int N = 48; alignas(64) char pages[N][64];
  std::atomic<int> next{0}; std::atomic<int> out[N];   // 1 while obtained from upstream and not returned
  std::atomic<int> held[N];                            // 1 while a caller of the allocator under test holds it
  Upstream() { for (int i = 0; i < N; i++) { out[i].store(0, std::memory_order_relaxed); held[i].store(0, std::memory_order_relaxed); } bbmc::background(&next, sizeof next); bbmc::background(out, sizeof out); bbmc::background(held, sizeof held); }
  size_t page_size() const noexcept override { return 64; }
  using PageAllocator::allocate; using PageAllocator::deallocate;
  int index(void* p) const { long i = ((char*)p - &pages[0][0]) / 64; bbmc::check(i >= 0 && i < N && (char*)p == pages[i], "a pointer that is not a page was passed around"); return (int)i; }
  void allocate(void** ps, size_t num) noexcept override {
    for (size_t k = 0; k < num; k++) { int i = next.fetch_add(1, std::memory_order_relaxed); bbmc::require(i < N, "upstream exhausted"); out[i].store(1, std::memory_order_relaxed); ps[k] = pages[i]; }
  }
  void deallocate(void** ps, size_t num) noexcept override {
    for (size_t k = 0; k < num; k++) { int i = index(ps[k]); bbmc::check(held[i].load(std::memory_order_relaxed) == 0, "a page still held by a caller was returned upstream"); bbmc::check(out[i].exchange(0, std::memory_order_relaxed) == 1, "a page was returned upstream twice"); }
  }
  int outstanding() { int n = 0; for (int i = 0; i < N; i++) n += out[i].load(); return n; }
  int held_count() { int n = 0; for (int i = 0; i < N; i++) n += held[i].load(); return n; }
  // caller side bookkeeping
  void got(void* p) { int i = index(p); bbmc::check(out[i].load(std::memory_order_relaxed) == 1, "allocate handed out a page that was already returned upstream"); bbmc::check(held[i].exchange(1, std::memory_order_relaxed) == 0, "allocate handed out a page that another caller holds"); }
  void give(void* p) { int i = index(p); held[i].store(0, std::memory_order_relaxed); }
};
template <class A> static void alloc_n(A& a, Upstream& u, void** ps, int n) { a.allocate(ps, n); for (int i = 0; i < n; i++) u.got(ps[i]); }
template <class A> static void free_n(A& a, Upstream& u, void** ps, int n) { for (int i = 0; i < n; i++) u.give(ps[i]); a.deallocate(ps, n); }

struct Obj { int id; int recycled = 0; static std::atomic<int> alive; Obj(int i) : id(i) { alive.fetch_add(1, std::memory_order_relaxed); } ~Obj() { alive.fetch_sub(1, std::memory_order_relaxed); } };
std::atomic<int> Obj::alive{0};

static const char* names[] = {
    "cached cap 1: alloc1,free || alloc1,free || alloc1,free",
    "cached cap 2: alloc3 (beyond capacity),free3 || alloc1,free",
    "cached cap 1 holding one page: alloc1 || alloc1 || free(held)",
    "cached cap 2: free2(held) || free1(held) (overflow compensation) || alloc2",
    "cached cap 2: alloc2 || alloc2 on an empty cache (both compensate), then free all",
    "batch size 2: two threads allocate 3 each and free; a second generation thread reuses a slot",
    "counting allocator: alloc/free balance",
    "strict object pool, 1 object: pop || pop (blocks until the first handle dies)",
    "strict object pool, 2 objects: pop,push || pop,assign from pop || try_pop",
    "auto-creating pool capacity 1: pop,pop then release both || pop",
    "batch allocator left at its default batch size: allocate,free || allocate,free",
};
int harness_configs() { return sizeof(names) / sizeof(names[0]); }
const char* harness_config_name(int c) { return names[c]; }
const char* harness_name() { return "mc_pages"; }

static void conservation(Upstream& u, size_t cached) {
  bbmc::check(u.outstanding() == u.held_count() + (int)cached, "pages obtained from upstream minus pages returned does not equal pages held plus pages cached");
}

void harness_main(int cfg) {
  bbmc::sleeps_advance_clock(false);
  Upstream up;
  switch (cfg) {
    case 0: case 1: case 2: case 3: case 4: {
      {
        CachedPageAllocator ca; ca.set_upstream(up); ca.set_free_page_capacity(cfg == 0 || cfg == 2 ? 1 : 2);
        std::vector<std::thread> ts;
        void* held[3] = {nullptr, nullptr, nullptr};
        if (cfg == 0) {
          auto body = [&] { void* p[1]; alloc_n(ca, up, p, 1); free_n(ca, up, p, 1); };
          ts.emplace_back(body); ts.emplace_back(body); ts.emplace_back(body);
        } else if (cfg == 1) {
          ts.emplace_back([&] { void* p[3]; alloc_n(ca, up, p, 3); free_n(ca, up, p, 3); });
          ts.emplace_back([&] { void* p[1]; alloc_n(ca, up, p, 1); free_n(ca, up, p, 1); });
        } else if (cfg == 2) {
          { void* p[2]; alloc_n(ca, up, p, 2); held[0] = p[0]; free_n(ca, up, p + 1, 1); }   // one page cached, one held
          ts.emplace_back([&] { void* p[1]; alloc_n(ca, up, p, 1); held[1] = p[0]; });
          ts.emplace_back([&] { void* p[1]; alloc_n(ca, up, p, 1); held[2] = p[0]; });
          ts.emplace_back([&] { void* p[1] = {held[0]}; free_n(ca, up, p, 1); });
        } else if (cfg == 3) {
          void* p[3]; alloc_n(ca, up, p, 3);
          ts.emplace_back([&, p] { void* q[2] = {p[0], p[1]}; free_n(ca, up, q, 2); });
          ts.emplace_back([&, p] { void* q[1] = {p[2]}; free_n(ca, up, q, 1); });
          ts.emplace_back([&] { void* q[2]; alloc_n(ca, up, q, 2); held[1] = q[0]; held[2] = q[1]; });
        } else {
          ts.emplace_back([&] { void* p[2]; alloc_n(ca, up, p, 2); free_n(ca, up, p, 2); });
          ts.emplace_back([&] { void* p[2]; alloc_n(ca, up, p, 2); free_n(ca, up, p, 2); });
        }
        for (auto& t : ts) t.join();
        conservation(up, ca.free_page_num());
        bbmc::check(ca.free_page_num() <= ca.free_page_capacity(), "cache holds more pages than its capacity");
        for (int i = 1; i < 3; i++) if (held[i]) { void* p[1] = {held[i]}; free_n(ca, up, p, 1); }
        conservation(up, ca.free_page_num());
      }
      bbmc::check(up.outstanding() == 0, "destroying the allocator did not return its cache upstream");
      break;
    }
    case 5: {
      {
        BatchPageAllocator ba; ba.set_upstream(up); ba.set_batch_size(2);
        auto body = [&] { void* p[3]; for (int i = 0; i < 3; i++) { p[i] = ba.allocate(); up.got(p[i]); } free_n(ba, up, p, 3); };
        std::thread a(body), b(body); a.join(); b.join();
        std::thread c([&] { void* p = ba.allocate(); up.got(p); up.give(p); ba.deallocate(p); });
        c.join();
        bbmc::check(up.held_count() == 0, "bookkeeping");
      }
      bbmc::check(up.outstanding() == 0, "destroying the batch allocator did not return the prefetched pages upstream");
      break;
    }
    case 10: {
      {
        BatchPageAllocator ba; ba.set_upstream(up);
        auto body = [&] { void* p = ba.allocate(); up.got(p); up.give(p); ba.deallocate(p); };
        std::thread a(body), b(body); a.join(); b.join();
      }
      bbmc::check(up.outstanding() == 0, "destroying the batch allocator did not return the prefetched pages upstream");
      break;
    }
    case 6: {
      CountingPageAllocator ca; ca.set_upstream(up);
      auto body = [&] { void* p[2]; alloc_n(ca, up, p, 2); free_n(ca, up, p, 1); void* q = ca.allocate(); up.got(q); up.give(q); ca.deallocate(q); up.give(p[1]); ca.deallocate(p[1]); };
      std::thread a(body), b(body); a.join(); b.join();
      bbmc::check(ca.allocated_page_num() == 0 && up.outstanding() == 0, "counting allocator: balance is not zero at quiescence");
      break;
    }
    case 7: case 8: {
      Obj::alive = 0; bbmc::background(&Obj::alive, sizeof Obj::alive);
      {
        ObjectPool<Obj> pool; pool.reserve_and_clear(2);
        int injected = cfg == 7 ? 1 : 2;
        for (int i = 0; i < injected; i++) pool.push(std::unique_ptr<Obj>(new Obj(i + 1)));
        std::atomic<int> outstanding{0}; bbmc::background(&outstanding, sizeof outstanding);
        auto use = [&](std::unique_ptr<Obj, ObjectPool<Obj>::Deleter>& h) {
          bbmc::check((bool)h, "blocking pop returned nothing");
          bbmc::check(outstanding.fetch_add(1, std::memory_order_relaxed) < injected, "more objects are outstanding than were injected");
          outstanding.fetch_sub(1, std::memory_order_relaxed);
        };
        std::vector<std::thread> ts;
        if (cfg == 7) {
          ts.emplace_back([&] { auto h = pool.pop(); use(h); });
          ts.emplace_back([&] { auto h = pool.pop(); use(h); });
        } else {
          ts.emplace_back([&] { auto h = pool.pop(); use(h); pool.push(std::move(h)); });
          ts.emplace_back([&] { auto h = pool.pop(); use(h); h.reset(); h = pool.pop(); use(h); });
          ts.emplace_back([&] { auto h = pool.try_pop(); if (h) use(h); });
        }
        for (auto& t : ts) t.join();
        bbmc::check((int)pool.free_object_number() == injected, "objects were lost or duplicated by the pool");
      }
      bbmc::check(Obj::alive.load() == 0, "pooled objects leaked when the pool was destroyed");
      break;
    }
    case 9: {
      Obj::alive = 0; bbmc::background(&Obj::alive, sizeof Obj::alive);
      std::atomic<int> created{0}, recycled{0}; bbmc::background(&created, sizeof created); bbmc::background(&recycled, sizeof recycled);
      {
        ObjectPool<Obj> pool; pool.reserve_and_clear(1);
        pool.set_creator([&] { return std::unique_ptr<Obj>(new Obj(100 + created.fetch_add(1, std::memory_order_relaxed))); });
        pool.set_recycler([&](Obj& o) { o.recycled++; recycled.fetch_add(1, std::memory_order_relaxed); });
        std::thread a([&] { auto h1 = pool.pop(); auto h2 = pool.pop(); bbmc::check(h1 && h2 && h1.get() != h2.get(), "auto-creating pool handed out one object twice"); });
        std::thread b([&] { auto h = pool.pop(); bbmc::check((bool)h, "auto-creating pop returned nothing"); });
        a.join(); b.join();
        bbmc::check(recycled.load() == 3, "the recycler must run once per returned object");
        bbmc::check(pool.free_object_number() <= 1 + 1, "auto-creating pool keeps more than its capacity");
        bbmc::check(Obj::alive.load() == (int)pool.free_object_number(), "overflow objects were leaked instead of destroyed");
      }
      bbmc::check(Obj::alive.load() == 0, "pooled objects leaked when the pool was destroyed");
      break;
    }
  }
}
