// mc_vector.cpp — C04: ConcurrentVector under concurrent growth, snapshots, gc() and the (virtual) cooling clock.
#include <atomic>
#include <thread>
#include <vector>

#include "babylon/concurrent/vector.h"
#include "bbmc.h"

using babylon::ConcurrentVector;

// element life-cycle accounting keyed by address (background: ordered but no preemption points)
static std::atomic<uintptr_t> live_addr[128]; static std::atomic<int> live_cnt[128]; static std::atomic<int> total_ctor, total_dtor;
static int slot_of(void* p) {
  for (int k = 0, i = (int)(((uintptr_t)p >> 2) * 2654435761u % 128); k < 128; k++, i = (i + 1) % 128) { uintptr_t a = live_addr[i].load(std::memory_order_relaxed); if (a == (uintptr_t)p) return i; if (a == 0) { live_addr[i].store((uintptr_t)p, std::memory_order_relaxed); return i; } }
  bbmc::require(false, "element table full"); return 0;
}
struct Elem {
  int v;
  Elem() : v(7) { bbmc::race_scope(this, sizeof *this); int s = slot_of(this); bbmc::check(live_cnt[s].fetch_add(1, std::memory_order_relaxed) == 0, "an element was constructed twice at one address"); total_ctor.fetch_add(1, std::memory_order_relaxed); }
  ~Elem() { int s = slot_of(this); bbmc::check(live_cnt[s].fetch_sub(1, std::memory_order_relaxed) == 1, "an element was destroyed twice (or never constructed)"); total_dtor.fetch_add(1, std::memory_order_relaxed); }
};
static void acct_init() {
  for (int i = 0; i < 128; i++) { live_addr[i].store(0, std::memory_order_relaxed); live_cnt[i].store(0, std::memory_order_relaxed); }
  total_ctor = 0; total_dtor = 0;
  bbmc::background(live_addr, sizeof live_addr); bbmc::background(live_cnt, sizeof live_cnt); bbmc::background(&total_ctor, sizeof total_ctor); bbmc::background(&total_dtor, sizeof total_dtor);
}
static void obtained(Elem* e) {
  bbmc::check(!bbmc::is_freed(e), "an element reference designates freed memory");
  int s = slot_of(e); bbmc::check(live_cnt[s].load(std::memory_order_relaxed) == 1, "a thread obtained an element that is not (or no longer) constructed");
  bbmc::check(e->v == 7, "an element was visible before its construction finished");
}

static const int64_t SEC = 1000000000LL;
static const char* names[] = {
    "block 1: ensure(0) || ensure(0) || ensure(1): racing first growth",
    "block 2: ensure(3) || ensure(1) || snapshot()+read",
    "dynamic block hint 1: reserve(3) || ensure(2) || operator[](0)",
    "snapshot taken before a growth stays usable although gc() is called at once",
    "gc() 63 s after the growth must keep the old table; the old snapshot is read afterwards",
    "a retire stalled across two clock units must not make a younger table collectable",
    "16-bit timestamp wrap: growth just before the wrap, gc() 64 s later",
    "block 1: fill_n/copy_n/for_each racing with ensure on another block",
    "the clock crosses a cooling unit and a growth happens while gc() runs: gc() || (advance 64 s, ensure) || snapshot reader",
};
int harness_configs() { return sizeof(names) / sizeof(names[0]); }
const char* harness_config_name(int c) { return names[c]; }
const char* harness_name() { return "mc_vector"; }

// read element 0 through a snapshot taken at (virtual) time t_taken, superseded no earlier than t_super
template <class S>
static void read_through(S& snap, int64_t t_super) {
  int64_t now = bbmc::now_ns();
  bool freed = bbmc::is_freed(snap._block_table);
  if (now - t_super < 64 * SEC) {
    bbmc::check(!freed, "a block table was freed less than one cooling period (64 s) after the growth that superseded it");
    if (!freed) obtained(&snap[0]);
  }
}

void harness_main(int cfg) {
  acct_init();
  bbmc::sleeps_advance_clock(false);
  switch (cfg) {
    case 0: {
      { ConcurrentVector<Elem, 1> v; Elem* a = nullptr; Elem* b = nullptr; Elem* c = nullptr;
        std::thread t1([&] { a = &v.ensure(0); obtained(a); }), t2([&] { b = &v.ensure(0); obtained(b); }), t3([&] { c = &v.ensure(1); obtained(c); });
        t1.join(); t2.join(); t3.join();
        bbmc::check(a == b, "two threads asking for the same index got different elements");
        bbmc::check(a != c, "different indices share an element");
        bbmc::check(&v[0] == a && &v[1] == c && &v.snapshot()[0] == a, "an element moved after it was handed out");
        bbmc::check(v.size() >= 2, "size() smaller than an index that was ensured");
        int alive = 0; for (int i = 0; i < 128; i++) alive += live_cnt[i].load(); bbmc::check((size_t)alive == v.size(), "speculative blocks of a losing growth were not destroyed (or live blocks were)");
      }
      break;
    }
    case 1: {
      { ConcurrentVector<Elem, 2> v; Elem* a = nullptr; Elem* b = nullptr;
        std::thread t1([&] { a = &v.ensure(3); obtained(a); }), t2([&] { b = &v.ensure(1); obtained(b); }), t3([&] { auto s = v.snapshot(); for (size_t i = 0; i < s.size(); i++) obtained(&s[i]); });
        t1.join(); t2.join(); t3.join();
        bbmc::check(&v[3] == a && &v[1] == b, "an element moved after it was handed out");
      }
      break;
    }
    case 2: {
      { ConcurrentVector<Elem> v(1); bbmc::require(v.block_size() == 1, "block size hint 1");
        v.ensure(0); Elem* first = &v[0];
        std::thread t1([&] { v.reserve(3); }), t2([&] { obtained(&v.ensure(2)); }), t3([&] { Elem* e = &v[0]; obtained(e); bbmc::check(e == first, "operator[] designates a different element after growth"); });
        t1.join(); t2.join(); t3.join();
        bbmc::check(v.size() >= 3 && &v[0] == first, "growth moved an element");
      }
      break;
    }
    case 3: case 4: case 6: {
      if (cfg == 6) bbmc::set_clock((65535LL * 64 + 60) * SEC);
      { ConcurrentVector<Elem, 1> v; v.ensure(0);
        auto snap = v.snapshot(); int64_t t_super = bbmc::now_ns();
        std::thread grow([&] { v.ensure(1); });
        std::thread gc([&] { if (cfg == 4) bbmc::advance_clock(63 * SEC); if (cfg == 6) bbmc::advance_clock(64 * SEC); v.gc(); });
        std::thread rd([&] { read_through(snap, t_super); });
        grow.join(); gc.join(); rd.join();
        read_through(snap, t_super);
      }
      break;
    }
    case 8: {
      { ConcurrentVector<Elem, 1> v; v.ensure(0);
        auto snap = v.snapshot(); std::atomic<int64_t> t_super{0}; bbmc::background(&t_super, sizeof t_super);
        std::thread grow([&] { bbmc::advance_clock(64 * SEC); t_super.store(bbmc::now_ns(), std::memory_order_relaxed); v.ensure(1); });   // superseded no earlier than t_super
        std::thread gc([&] { v.gc(); });
        grow.join(); gc.join();
        read_through(snap, t_super.load());
      }
      break;
    }
    case 5: {
      { ConcurrentVector<Elem, 1> v; v.ensure(0);
        std::atomic<int> stage{0};
        std::thread t1([&] { v.ensure(1); });                              // growth A: may stall inside its retire
        std::thread clk([&] { bbmc::advance_clock(130 * SEC); stage.store(1, std::memory_order_release); });
        std::thread t2([&] {
          while (stage.load(std::memory_order_acquire) == 0) sched_yield();
          auto snap = v.snapshot(); int64_t t_super = bbmc::now_ns();      // whatever table is current now is superseded later than this
          v.ensure(3);                                                     // growth B
          v.gc();
          read_through(snap, t_super);
        });
        t1.join(); clk.join(); t2.join();
      }
      break;
    }
    case 7: {
      { ConcurrentVector<int, 1> v; v.ensure(0);
        int src[2] = {5, 6};
        std::thread t1([&] { v.fill_n(0, 2, 9); }), t2([&] { v.ensure(3); }), t3([&] { v.copy_n(src, 2, 2); });
        t1.join(); t2.join(); t3.join();
        bbmc::check(v[0] == 9 && v[1] == 9 && v[2] == 5 && v[3] == 6, "fill_n/copy_n racing with growth lost a write");
        int sum = 0; v.for_each(0, 4, [&](int* b, int* e) { for (; b != e; ++b) sum += *b; }); bbmc::check(sum == 29, "for_each disagrees with operator[]");
      }
      return;
    }
  }
  // the vector is gone: every element ever constructed was destroyed exactly once
  bbmc::check(total_ctor.load() == total_dtor.load(), "elements constructed and destroyed do not balance after the vector was destroyed");
  for (int i = 0; i < 128; i++) bbmc::check(live_cnt[i].load() == 0, "an element outlived its vector");
}
