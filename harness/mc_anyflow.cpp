// mc_anyflow.cpp — C05: a run of a built anyflow graph equals a sequential demand-driven evaluation; every vertex
// processor runs at most once, only when needed and only after its dependencies are resolved; wait() covers every
// started vertex; reset() gives the same guarantees again.
#include <atomic>
#include <memory>
#include <string>
#include <thread>
#include <vector>

#include "babylon/anyflow/builder.h"
#include "babylon/anyflow/vertex.h"
#include "babylon/concurrent/sched_interface.h"
#include "babylon/logging/logger.h"
#include "bbmc.h"

using namespace babylon::anyflow;

// ---- graph descriptions ------------------------------------------------------------------------------------
enum { PLAIN = 0, ON = 1, UNLESS = 2 };
struct DepD { const char* target; const char* cond; int mode; bool essential; };
struct VtxD {
  int ndeps; DepD deps[3]; int nemits; const char* emits[2];
  int base; int mod; int fail; bool empty_if_zero; bool trivial;
};
// input state: K_VALUE -> value chosen from {0,1}; K_EMPTY -> published empty; K_ABSENT -> never published
enum { K_VALUE = 0, K_EMPTY = 1, K_ABSENT = 2 };
struct InD { const char* name; int kind; bool concurrent; };
struct GraphD { int nv; VtxD v[5]; int nin; InD in[3]; int ntargets; const char* targets[3]; bool choose_targets; };
enum { X_INPLACE = 0, X_THREADS = 1, X_POOL1 = 2, X_POOL2 = 3 };
struct Cfg { const char* name; const GraphD* g; int exec; int cycles; bool callback = false; };

#define DEP(t) {t, nullptr, PLAIN, false}
#define DEP_ON(t, c) {t, c, ON, false}
#define DEP_UNLESS(t, c) {t, c, UNLESS, false}
#define DEP_ESS(t) {t, nullptr, PLAIN, true}
#define DEP_ESS_ON(t, c) {t, c, ON, true}

// A -> (V0: B, V1: C) -> V2: T
static const GraphD g_diamond = {3, {{1, {DEP("A")}, 1, {"B"}, 1, 0, 0, false, false}, {1, {DEP("A")}, 1, {"C"}, 2, 0, 0, false, false}, {2, {DEP("B"), DEP("C")}, 1, {"T"}, 0, 0, 0, false, false}},
                                 1, {{"A", K_VALUE, false}}, 1, {"T"}, false};
// C = I; X constant; T depends on X only if C, U depends on X unless C
static const GraphD g_cond = {4, {{1, {DEP("I")}, 1, {"C"}, 0, 2, 0, false, false}, {0, {}, 1, {"X"}, 5, 0, 0, false, false}, {1, {DEP_ON("X", "C")}, 1, {"T"}, 100, 0, 0, false, false}, {1, {DEP_UNLESS("X", "C")}, 1, {"U"}, 200, 0, 0, false, false}},
                              1, {{"I", K_VALUE, false}}, 2, {"T", "U"}, true};
// the target of a conditional dependency is also demanded unconditionally elsewhere: target-ready and
// condition-ready race on the same dependency counter ("punch through")
static const GraphD g_punch = {4, {{1, {DEP("I")}, 1, {"C"}, 0, 2, 0, false, false}, {0, {}, 1, {"X"}, 5, 0, 0, false, false}, {1, {DEP_ON("X", "C")}, 1, {"T"}, 100, 0, 0, false, false}, {1, {DEP("X")}, 1, {"U"}, 200, 0, 0, false, false}},
                               1, {{"I", K_VALUE, false}}, 2, {"T", "U"}, false};
// essential dependency on a value that may be empty; the skipped vertex publishes empty outputs to its successor
static const GraphD g_essential = {3, {{1, {DEP("I")}, 1, {"M"}, 0, 2, 0, true, false}, {1, {DEP_ESS("M")}, 1, {"T"}, 50, 0, 0, false, false}, {1, {DEP("T")}, 1, {"U"}, 70, 0, 0, false, false}},
                                   1, {{"I", K_VALUE, false}}, 1, {"U"}, false};
// essential dependency behind a condition that may not hold
static const GraphD g_essential_cond = {3, {{1, {DEP("I")}, 1, {"C"}, 0, 2, 0, false, false}, {0, {}, 1, {"X"}, 5, 0, 0, false, false}, {2, {DEP_ESS_ON("X", "C"), DEP("C")}, 2, {"T", "S"}, 50, 0, 0, false, false}},
                                        1, {{"I", K_VALUE, false}}, 2, {"T", "S"}, false};
// chain of trivial (inline) vertices feeding a normal one
static const GraphD g_trivial = {3, {{1, {DEP("A")}, 1, {"B"}, 1, 0, 0, false, true}, {1, {DEP("B")}, 2, {"C", "D"}, 2, 0, 0, false, true}, {2, {DEP("C"), DEP("D")}, 1, {"T"}, 0, 0, 0, false, false}},
                                 1, {{"A", K_VALUE, false}}, 1, {"T"}, false};
// externally injected input arriving concurrently with the run
static const GraphD g_inject = {2, {{1, {DEP("A")}, 1, {"B"}, 1, 0, 0, false, false}, {2, {DEP("B"), DEP("E")}, 1, {"T"}, 0, 0, 0, false, false}},
                                2, {{"A", K_VALUE, false}, {"E", K_VALUE, true}}, 1, {"T"}, false};
// injected input behind a condition that is evaluated by a vertex
static const GraphD g_inject_cond = {2, {{1, {DEP("I")}, 1, {"C"}, 0, 2, 0, false, false}, {1, {DEP_ON("E", "C")}, 1, {"T"}, 100, 0, 0, false, false}},
                                     2, {{"I", K_VALUE, false}, {"E", K_VALUE, true}}, 1, {"T"}, false};
// a failing vertex short-circuits the run
static const GraphD g_fail = {3, {{0, {}, 1, {"X"}, 1, 0, 7, false, false}, {0, {}, 1, {"Y"}, 2, 0, 0, false, false}, {2, {DEP("X"), DEP("Y")}, 1, {"T"}, 0, 0, 0, false, false}},
                              0, {}, 1, {"T"}, false};
// shared producer, two targets, plus a vertex nobody needs
static const GraphD g_shared = {4, {{0, {}, 1, {"S"}, 3, 0, 0, false, false}, {1, {DEP("S")}, 1, {"T"}, 10, 0, 0, false, false}, {1, {DEP("S")}, 1, {"U"}, 20, 0, 0, false, false}, {1, {DEP("S")}, 1, {"Z"}, 30, 0, 0, false, false}},
                                0, {}, 2, {"T", "U"}, true};
// the condition is itself a requested target; its producer is two hops away, the guarded target one hop
static const GraphD g_cond_target = {4, {{1, {DEP("I")}, 1, {"K"}, 0, 0, 0, false, false}, {1, {DEP("K")}, 1, {"C"}, 0, 2, 0, false, false}, {0, {}, 1, {"X"}, 5, 0, 0, false, false}, {1, {DEP_ON("X", "C")}, 1, {"T"}, 100, 0, 0, false, false}},
                                     1, {{"I", K_VALUE, false}}, 2, {"C", "T"}, false};
// conditional dependency whose target is produced by a vertex with its own conditional dependency
static const GraphD g_nested = {5, {{1, {DEP("I")}, 1, {"C"}, 0, 2, 0, false, false}, {1, {DEP("J")}, 1, {"D"}, 0, 2, 0, false, false}, {0, {}, 1, {"Y"}, 5, 0, 0, false, false}, {1, {DEP_UNLESS("Y", "D")}, 1, {"X"}, 30, 0, 0, false, false}, {1, {DEP_ON("X", "C")}, 1, {"T"}, 100, 0, 0, false, false}},
                                2, {{"I", K_VALUE, false}, {"J", K_VALUE, false}}, 1, {"T"}, false};
// an input that is never provided: activation must fail, the closure must still finish
static const GraphD g_missing = {2, {{1, {DEP("I")}, 1, {"C"}, 0, 2, 0, false, false}, {1, {DEP_ON("Q", "C")}, 1, {"T"}, 100, 0, 0, false, false}},
                                 2, {{"I", K_VALUE, false}, {"Q", K_ABSENT, false}}, 1, {"T"}, false};
// one condition guards two dependencies of the same vertex, one "on" and one "unless", over two produced targets
static const GraphD g_both = {4, {{1, {DEP("I")}, 1, {"C"}, 0, 2, 0, false, false}, {0, {}, 1, {"X"}, 5, 0, 0, false, false}, {0, {}, 1, {"Y"}, 6, 0, 0, false, false}, {2, {DEP_ON("X", "C"), DEP_UNLESS("Y", "C")}, 1, {"T"}, 100, 0, 0, false, false}},
                              1, {{"I", K_VALUE, false}}, 1, {"T"}, false};
// provided-empty input used as a condition and as a value
static const GraphD g_empty_in = {2, {{0, {}, 1, {"X"}, 5, 0, 0, false, false}, {2, {DEP_UNLESS("X", "N"), DEP("N")}, 1, {"T"}, 100, 0, 0, false, false}},
                                  1, {{"N", K_EMPTY, false}}, 1, {"T"}, false};

// a vertex that is activated lazily (its output sits behind a condition) while its own dependency is being published by a
// vertex that was activated eagerly: activation's countdown races with the readiness notification
static const GraphD g_lazy = {4, {{1, {DEP("I")}, 1, {"C"}, 0, 2, 0, false, false}, {0, {}, 1, {"E"}, 5, 0, 0, false, false}, {1, {DEP("E")}, 1, {"D"}, 10, 0, 0, false, false}, {2, {DEP_ON("D", "C"), DEP("E")}, 1, {"T"}, 100, 0, 0, false, false}},
                              1, {{"I", K_VALUE, false}}, 1, {"T"}, false};
// the same with two dependencies on the lazily activated vertex, one already published, one in flight
static const GraphD g_lazy2 = {5, {{1, {DEP("I")}, 1, {"C"}, 0, 2, 0, false, false}, {0, {}, 1, {"E"}, 5, 0, 0, false, false}, {0, {}, 1, {"F"}, 6, 0, 0, false, false}, {2, {DEP("E"), DEP("F")}, 1, {"D"}, 10, 0, 0, false, false}, {3, {DEP_ON("D", "C"), DEP("E"), DEP("F")}, 1, {"T"}, 100, 0, 0, false, false}},
                               1, {{"I", K_VALUE, false}}, 1, {"T"}, false};

// two conditions evaluated by two vertices guard dependencies on the same target: both establish concurrently and both
// activate the target's producer
static const GraphD g_twocond = {5, {{1, {DEP("I")}, 1, {"C"}, 0, 2, 0, false, false}, {1, {DEP("J")}, 1, {"D"}, 0, 2, 0, false, false}, {0, {}, 1, {"X"}, 5, 0, 0, false, false}, {1, {DEP_ON("X", "C")}, 1, {"T"}, 100, 0, 0, false, false}, {1, {DEP_ON("X", "D")}, 1, {"U"}, 200, 0, 0, false, false}},
                                 2, {{"I", K_VALUE, false}, {"J", K_VALUE, false}}, 2, {"T", "U"}, false};
// the condition itself is injected while run() is activating; another dependency of the same vertex is produced slowly
static const GraphD g_inject_condition = {2, {{1, {DEP("A")}, 1, {"U"}, 7, 0, 0, false, false}, {2, {DEP_ON("X", "C"), DEP("U")}, 1, {"T"}, 100, 0, 0, false, false}},
                                          3, {{"A", K_VALUE, false}, {"X", K_VALUE, false}, {"C", K_VALUE, true}}, 1, {"T"}, false};
// a requested target is itself injected while run() binds and activates it; a second target keeps a vertex in flight
static const GraphD g_inject_target = {2, {{1, {DEP("A")}, 1, {"Y"}, 3, 0, 0, false, false}, {1, {DEP("X")}, 1, {"Z"}, 9, 0, 0, false, false}},   // the second vertex only makes X a data of the graph
                                       2, {{"A", K_VALUE, false}, {"X", K_VALUE, true}}, 2, {"X", "Y"}, false};

// ---- generated family: every dependency shape over a small pool -----------------------------------------------
// VA: 1 dependency over {I0, I1} -> A (0/1, usable as a condition); VB: 1 dependency over {I0, I1, A} -> B;
// VC: 2 dependencies over {I0, I1, A, B} -> T. A dependency = (target, none | on c | unless c with c != target, essential?).
// level 0: essential only on VC's first dependency; level 1: also on VB's.
static GraphD g_gen;
static const char* const pool_names[4] = {"I0", "I1", "A", "B"};
static DepD gen_dep(int npool, bool may_essential) {
  DepD d; int t = bbmc::choose(npool); d.target = pool_names[t];
  int m = bbmc::choose(1 + 2 * (npool - 1));   // 0: plain; then (cond, on/unless) pairs
  if (m == 0) { d.cond = nullptr; d.mode = PLAIN; }
  else { int ci = (m - 1) / 2; if (ci >= t) ci++; d.cond = pool_names[ci]; d.mode = ((m - 1) & 1) ? UNLESS : ON; }
  d.essential = may_essential ? bbmc::choose(2) == 1 : false;
  return d;
}
static const GraphD* generate(int level) {
  GraphD& g = g_gen; g = GraphD();
  g.nv = 3;
  g.v[0] = VtxD{1, {gen_dep(2, false)}, 1, {"A"}, 0, 2, 0, false, false};
  g.v[1] = VtxD{1, {gen_dep(3, level >= 1)}, 1, {"B"}, 3, 0, 0, false, false};
  g.v[2] = VtxD{2, {gen_dep(4, true), gen_dep(4, false)}, 1, {"T"}, 100, 0, 0, false, false};
  g.nin = 2; g.in[0] = InD{"I0", K_VALUE, false}; g.in[1] = InD{"I1", K_VALUE, false};
  g.ntargets = 1; g.targets[0] = "T"; g.choose_targets = false;
  return &g;
}

static const Cfg cfgs[] = {
    {"diamond, inplace executor, 2 run/reset cycles", &g_diamond, X_INPLACE, 2},
    {"diamond, thread per vertex", &g_diamond, X_THREADS, 1},
    {"on/unless over a shared target, thread per vertex, all target subsets", &g_cond, X_THREADS, 1},
    {"conditional target also demanded unconditionally (punch-through), thread per vertex", &g_punch, X_THREADS, 1},
    {"essential dependency on a possibly empty value, thread per vertex, 2 cycles", &g_essential, X_THREADS, 2},
    {"essential dependency behind a condition, thread per vertex", &g_essential_cond, X_THREADS, 1},
    {"trivial vertices chained inline, thread per vertex", &g_trivial, X_THREADS, 1},
    {"input injected concurrently with the run, thread per vertex", &g_inject, X_THREADS, 1},
    {"injected input behind a vertex-evaluated condition, thread per vertex", &g_inject_cond, X_THREADS, 1},
    {"a failing vertex, thread per vertex", &g_fail, X_THREADS, 1},
    {"shared producer + unneeded vertex, all target subsets, thread per vertex, 2 cycles", &g_shared, X_THREADS, 2},
    {"condition is also a target and arrives late, thread per vertex", &g_cond_target, X_THREADS, 1},
    {"nested conditional dependencies, thread per vertex", &g_nested, X_THREADS, 1},
    {"input never provided, thread per vertex", &g_missing, X_THREADS, 1},
    {"on + unless over one condition inside one vertex, thread per vertex", &g_both, X_THREADS, 1},
    {"provided-empty input as condition and value, inplace", &g_empty_in, X_INPLACE, 2},
    {"punch-through, thread pool with 2 workers", &g_punch, X_POOL2, 1},
    {"diamond, thread pool with 1 worker, 2 cycles", &g_diamond, X_POOL1, 2},
    {"nested conditional dependencies, inplace, 2 cycles", &g_nested, X_INPLACE, 2},
    {"on/unless over a shared target, inplace, all target subsets", &g_cond, X_INPLACE, 1},
    {"on + unless over one condition, thread pool with 2 workers", &g_both, X_POOL2, 1},
    {"generated: all 3-vertex dependency shapes x inputs, inplace executor, 2 cycles", nullptr, X_INPLACE, 2},
    {"generated: all 3-vertex dependency shapes x inputs, thread per vertex", nullptr, X_THREADS, 1},
    {"lazily activated vertex whose dependency is in flight, thread per vertex", &g_lazy, X_THREADS, 1},
    {"lazily activated vertex with two dependencies in flight, thread per vertex", &g_lazy2, X_THREADS, 1},
    {"lazily activated vertex whose dependency is in flight, thread pool with 2 workers", &g_lazy, X_POOL2, 1},
    {"diamond, thread pool with 2 workers, result delivered through on_finish()", &g_diamond, X_POOL2, 2, true},
    {"a failing vertex, thread pool with 2 workers, result delivered through on_finish()", &g_fail, X_POOL2, 1, true},
    {"on/unless over a shared target, thread pool with 2 workers, on_finish(), all target subsets", &g_cond, X_POOL2, 1, true},
    {"two vertex-evaluated conditions guard one target: both activate its producer, thread per vertex", &g_twocond, X_THREADS, 1},
    {"the condition of a dependency is injected concurrently with the run, thread per vertex", &g_inject_condition, X_THREADS, 1},
    {"a requested target is injected concurrently with the run, thread per vertex", &g_inject_target, X_THREADS, 1},
};
// Called in every process before the memory snapshot is taken. babylon's WARNING lines on the error paths would pull
// lazily initialised state of shared libraries (abseil's time zone tables) into the executions, and that state is
// not rolled back between in-process executions: raise the root logger's threshold instead (error paths still run).
int harness_configs() {
  static bool once = false;
  if (!once) {
    once = true;
    babylon::LoggerBuilder b; b.set_min_severity(babylon::LogSeverity::FATAL);
    babylon::LoggerManager::instance().set_root_builder(std::move(b)); babylon::LoggerManager::instance().apply();
  }
  return sizeof(cfgs) / sizeof(cfgs[0]);
}
const char* harness_config_name(int c) { return cfgs[c].name; }
const char* harness_name() { return "mc_anyflow"; }

// ---- run-time world ------------------------------------------------------------------------------------------
struct World {
  const GraphD* g;
  std::atomic<int> started[5], finished[5];
  int seen_present[5][3], seen_value[5][3];   // written by the processor, read after wait(): plain on purpose
  World() { for (int i = 0; i < 5; i++) { started[i] = 0; finished[i] = 0; for (int j = 0; j < 3; j++) { seen_present[i][j] = -1; seen_value[i][j] = 0; } } }
};
static World* W;

static int compute(const VtxD& vd, int k, const int* present, const int* value) {
  int out = vd.base + 10 * k;
  for (int i = 0; i < vd.ndeps; i++) if (present[i]) out += (i + 1) * value[i];
  if (vd.mod) out %= vd.mod;
  return out;
}

struct GenProc : public GraphProcessor {
  int setup() noexcept override {
    int vid = *option<int>(); const VtxD& vd = W->g->v[vid];
    for (int i = 0; i < vd.ndeps; i++) if (vd.deps[i].essential) vertex().anonymous_dependency(i)->declare_essential(true);
    if (vd.trivial) vertex().declare_trivial();
    return 0;
  }
  int process() noexcept override {
    int vid = *option<int>(); const VtxD& vd = W->g->v[vid];
    W->started[vid].fetch_add(1, std::memory_order_relaxed);
    int present[3] = {0, 0, 0}, value[3] = {0, 0, 0};
    for (int i = 0; i < vd.ndeps; i++) {
      GraphDependency* d = vertex().anonymous_dependency(i);
      bool holds = true;
      if (d->_condition != nullptr) {
        bbmc::check(d->_condition->ready(), "a processor was invoked before the condition of one of its dependencies was ready");
        holds = d->_condition->as<bool>() == d->_establish_value;
      }
      if (holds) bbmc::check(d->_target->ready(), "a processor was invoked before the target of a dependency whose condition holds was ready");
      bbmc::check(d->established() == holds, "GraphDependency::established() disagrees with the value of the condition");
      bbmc::check(d->ready() == holds, "GraphDependency::ready() is wrong at processor invocation (must be true exactly when the condition holds and the target is ready)");
      const int* p = d->value<int>();
      present[i] = p != nullptr; value[i] = p ? *p : 0;
      W->seen_present[vid][i] = present[i]; W->seen_value[vid][i] = value[i];
    }
    if (vd.fail == 0) {
      for (int k = 0; k < vd.nemits; k++) {
        int out = compute(vd, k, present, value);
        if (vd.empty_if_zero && out == 0) continue;   // left to flush_emits: published empty
        auto committer = vertex().anonymous_emit(k)->emit<int>();
        bbmc::check((bool)committer, "a processor could not acquire its own output: the data was already published by somebody else");
        *committer = out;
      }
    }
    W->finished[vid].fetch_add(1, std::memory_order_relaxed);
    return vd.fail;
  }
};

struct ThreadGraphExecutor : public GraphExecutor {
  std::thread threads[16]; std::atomic<int> n{0};
  Closure create_closure() noexcept override { return Closure::create<babylon::SchedInterface>(*this); }
  int32_t run(GraphVertex* vertex, GraphVertexClosure&& closure) noexcept override {
    int i = n.fetch_add(1, std::memory_order_relaxed); bbmc::require(i < 16, "too many vertex launches");
    threads[i] = std::thread([vertex, c = std::move(closure)]() mutable { vertex->run(std::move(c)); });
    return 0;
  }
  int32_t run(ClosureContext* closure, Closure::Callback* callback) noexcept override { closure->run(callback); return 0; }
  void join_all() { int m = n.load(); for (int i = 0; i < m; i++) if (threads[i].joinable()) threads[i].join(); }
};

// ---- sequential demand-driven reference interpreter ---------------------------------------------------------------
struct RefData { bool ready = false, empty = true; int value = 0; int producer = -1; };
struct Ref {
  const GraphD* g; std::vector<std::string> names; std::vector<RefData> data;
  bool visited[5] = {false, false, false, false, false}, ran[5] = {false, false, false, false, false};
  int in_present[5][3], in_value[5][3];
  bool activation_error = false; int fail_code = 0;
  int idx(const char* n) { for (size_t i = 0; i < names.size(); i++) if (names[i] == n) return (int)i; names.push_back(n); data.emplace_back(); return (int)names.size() - 1; }
  explicit Ref(const GraphD* gd) : g(gd) {
    for (int v = 0; v < g->nv; v++) {
      for (int i = 0; i < g->v[v].ndeps; i++) { idx(g->v[v].deps[i].target); if (g->v[v].deps[i].cond) idx(g->v[v].deps[i].cond); }
      for (int k = 0; k < g->v[v].nemits; k++) data[idx(g->v[v].emits[k])].producer = v;
    }
    for (int i = 0; i < g->nin; i++) idx(g->in[i].name);
    for (int i = 0; i < g->ntargets; i++) idx(g->targets[i]);
  }
  // returns false when the value can never become available (no producer / failed producer)
  bool need(int d) {
    if (data[d].ready) return true;
    if (data[d].producer < 0) { activation_error = true; return false; }
    eval(data[d].producer);
    return data[d].ready;
  }
  void eval(int v) {
    if (visited[v]) return;
    visited[v] = true;
    const VtxD& vd = g->v[v]; bool all = true, essential_failed = false;
    for (int i = 0; i < vd.ndeps; i++) {
      const DepD& dd = vd.deps[i]; bool holds = true; in_present[v][i] = 0; in_value[v][i] = 0;
      if (dd.cond) {
        int c = idx(dd.cond);
        if (!need(c)) { all = false; continue; }
        bool cv = !data[c].empty && data[c].value != 0;
        holds = cv == (dd.mode == ON);
      }
      if (holds) {
        int t = idx(dd.target);
        if (!need(t)) { all = false; continue; }
        if (!data[t].empty) { in_present[v][i] = 1; in_value[v][i] = data[t].value; }
      }
      if (dd.essential && (!holds || !in_present[v][i])) essential_failed = true;
    }
    if (!all) return;   // some dependency can never resolve: the vertex never becomes runnable
    if (essential_failed) { for (int k = 0; k < vd.nemits; k++) { RefData& o = data[idx(vd.emits[k])]; o.ready = true; o.empty = true; } return; }
    ran[v] = true;
    if (vd.fail) { if (!fail_code) fail_code = vd.fail; return; }
    for (int k = 0; k < vd.nemits; k++) {
      RefData& o = data[idx(vd.emits[k])]; int out = compute(vd, k, in_present[v], in_value[v]);
      o.ready = true; if (vd.empty_if_zero && out == 0) o.empty = true; else { o.empty = false; o.value = out; }
    }
  }
};

void harness_main(int c) {
  const Cfg& cf = cfgs[c];
  bbmc::sleeps_advance_clock(false);
  const GraphD* g = cf.g ? cf.g : generate(0);
  World world; world.g = g; W = &world;
  bbmc::background(world.started, sizeof world.started); bbmc::background(world.finished, sizeof world.finished);

  ThreadGraphExecutor texec; bbmc::background(&texec.n, sizeof texec.n);
  ThreadPoolGraphExecutor pexec;
  GraphExecutor* exec = &InplaceGraphExecutor::instance();
  if (cf.exec == X_THREADS) exec = &texec;
  if (cf.exec == X_POOL1 || cf.exec == X_POOL2) { bbmc::require(pexec.initialize(cf.exec == X_POOL1 ? 1 : 2, 8) == 0, "pool start"); exec = &pexec; }

  GraphBuilder builder; builder.set_executor(*exec);
  for (int v = 0; v < g->nv; v++) {
    auto& vb = builder.add_vertex([] { return std::unique_ptr<GraphProcessor>(new GenProc); });
    vb.option(int(v));
    for (int i = 0; i < g->v[v].ndeps; i++) {
      const DepD& dd = g->v[v].deps[i]; auto& db = vb.anonymous_depend().to(dd.target);
      if (dd.mode == ON) db.on(dd.cond); else if (dd.mode == UNLESS) db.unless(dd.cond);
    }
    for (int k = 0; k < g->v[v].nemits; k++) vb.anonymous_emit().to(g->v[v].emits[k]);
  }
  bbmc::require(builder.finish() == 0, "builder.finish");
  std::unique_ptr<Graph> graph = builder.build();
  bbmc::require((bool)graph, "builder.build");
  // payload memory under the happens-before race detector: a data's value and flags, a dependency's verdict
  for (auto& d : graph->data()) { bbmc::race_scope(&d._data, sizeof d._data); bbmc::race_scope(&d._empty, sizeof d._empty); bbmc::interleave_plain(&d._active, sizeof d._active); }   // _active: unsynchronised 'already triggered' flag
  for (auto& v : graph->vertexes()) for (auto& d : v.dependencies()) { bbmc::race_scope(&d._ready, sizeof d._ready); }
  bbmc::race_scope(world.seen_present, sizeof world.seen_present); bbmc::race_scope(world.seen_value, sizeof world.seen_value);

  for (int cycle = 0; cycle < cf.cycles; cycle++) {
    if (cycle > 0) {
      graph->reset();
      for (int v = 0; v < 5; v++) { world.started[v] = 0; world.finished[v] = 0; for (int j = 0; j < 3; j++) world.seen_present[v][j] = -1; }
      texec.n.store(0);
    }
    Ref ref(g);
    // ---- inputs ------------------------------------------------------------------------------------
    int inval[3] = {0, 0, 0};
    for (int i = 0; i < g->nin; i++) if (g->in[i].kind == K_VALUE) inval[i] = bbmc::choose(2);
    auto provide = [&](int i) {
      GraphData* d = graph->find_data(g->in[i].name); if (d == nullptr) { bbmc::require(cf.g == nullptr, "input name"); return; }   // generated graphs may not use an input
      if (g->in[i].kind == K_VALUE) *d->emit<int>() = inval[i]; else if (g->in[i].kind == K_EMPTY) { auto cm = d->emit<int>(); (void)cm; }
    };
    for (int i = 0; i < g->nin; i++) {
      RefData& rd = ref.data[ref.idx(g->in[i].name)];
      if (g->in[i].kind == K_VALUE) { rd.ready = true; rd.empty = false; rd.value = inval[i]; } else if (g->in[i].kind == K_EMPTY) { rd.ready = true; rd.empty = true; }
      if (!g->in[i].concurrent) provide(i);
    }
    // ---- targets -----------------------------------------------------------------------------------
    unsigned mask = (1u << g->ntargets) - 1;
    if (g->choose_targets) mask = 1 + (unsigned)bbmc::choose((1 << g->ntargets) - 1);
    GraphData* tdata[3]; int tidx[3]; int nt = 0;
    for (int i = 0; i < g->ntargets; i++) if (mask & (1u << i)) { tdata[nt] = graph->find_data(g->targets[i]); tidx[nt] = ref.idx(g->targets[i]); nt++; }
    bool ref_ok = true;
    for (int i = 0; i < nt; i++) if (!ref.need(tidx[i])) ref_ok = false;
    bool ref_success = ref_ok && !ref.activation_error && ref.fail_code == 0;

    // ---- the run -----------------------------------------------------------------------------------
    std::thread injector; bool injected = false;
    for (int i = 0; i < g->nin; i++) if (g->in[i].concurrent) { injector = std::thread([&, i] { provide(i); }); injected = true; }
    Closure closure = graph->run(tdata, (size_t)nt);
    int rc;
    std::atomic<int> cb_calls{0}, cb_done{0}; int cb_code = -99; bool cb_finished = false;
    if (cf.callback) {
      // the callback owns the closure from now on; it runs on a pool worker (or here, if the run has already finished)
      closure.on_finish([&](Closure&& c) { cb_calls.fetch_add(1, std::memory_order_relaxed); cb_finished = c.finished(); cb_code = c.error_code(); cb_done.store(1, std::memory_order_release); });
      while (cb_done.load(std::memory_order_acquire) == 0) sched_yield();
      bbmc::check(cb_finished, "the on_finish callback ran although the closure does not report finished");
      rc = cb_code;
    } else {
      rc = closure.get();
      bbmc::check(closure.finished(), "get() returned but the closure does not report finished");
    }
    if (rc == 0) {
      // targets are published by now; their values may be read as soon as get() returned
      for (int i = 0; i < nt; i++) {
        const RefData& rd = ref.data[tidx[i]];
        bbmc::check(tdata[i]->ready(), "the run finished successfully but a requested target is not ready");
        if (ref_success) {
          bbmc::check(tdata[i]->empty() == rd.empty, "a target's emptiness differs from the sequential evaluation");
          if (!rd.empty) { const int* p = tdata[i]->value<int>(); bbmc::check(p != nullptr && *p == rd.value, "a target holds a value different from the sequential demand-driven evaluation"); }
        }
      }
    }
    if (!cf.callback) {
      closure.wait();
      for (int v = 0; v < g->nv; v++) bbmc::check(world.started[v].load() == world.finished[v].load(), "wait() returned while a started vertex processor had not finished");
    } else {
      // the callback's Closure waits for the steady state when it dies; draining the pool makes sure that has happened
      pexec.stop();
      bbmc::check(cb_calls.load() == 1, "the on_finish callback did not run exactly once");
    }
    if (injected) injector.join();
    texec.join_all();
    if (!cf.callback) {
      // completion tracking at quiescence: every requested target that is published has been counted off exactly once,
      // and no vertex is counted as running any more (read from the closure's private counters)
      ClosureContext* cc = closure.context();
      int unready = 0; for (GraphData* d : cc->_waiting_data) if (!d->ready()) unready++;   // targets the run got as far as binding (it stops at the first one that cannot be activated)
      bbmc::check(cc->_waiting_data_num.load() == unready, "the closure's count of outstanding targets does not match the targets that are still unpublished (a publication was not counted, or counted twice)");
      bbmc::check(cc->_waiting_vertex_num.load() == 0, "the closure still counts a vertex as running after wait() returned and every thread was joined");
    }
    // ---- verdicts ----------------------------------------------------------------------------------
    if (!injected) bbmc::check((rc == 0) == ref_success, ref_success ? "the run failed although the sequential evaluation succeeds" : "the run reported success although a needed input is missing or a needed vertex failed");
    else if (!ref_success) bbmc::check(rc != 0, "the run reported success although the sequential evaluation fails");
    if (rc != 0 && !ref.activation_error && ref.fail_code != 0 && !injected) bbmc::check(rc == ref.fail_code, "the closure's error code is not the failing processor's return value");
    for (int v = 0; v < g->nv; v++) {
      int runs = world.started[v].load();
      bbmc::check(runs <= 1, "a vertex processor ran more than once in one run");
      if (runs && !ref.ran[v]) bbmc::check(false, "a vertex ran that the requested targets do not need (or whose essential dependency failed)");
      if (rc == 0 && ref_success) bbmc::check(runs == (ref.ran[v] ? 1 : 0), "a vertex needed by the targets did not run although the run succeeded");
      if (runs && ref_success) for (int i = 0; i < g->v[v].ndeps; i++) {
        bbmc::check(world.seen_present[v][i] == ref.in_present[v][i] && (!ref.in_present[v][i] || world.seen_value[v][i] == ref.in_value[v][i]), "a processor saw an input different from the sequential evaluation");
      }
    }
    if (rc == 0 && ref_success) for (size_t i = 0; i < ref.names.size(); i++) {
      GraphData* d = graph->find_data(ref.names[i]); const RefData& rd = ref.data[i]; if (d == nullptr) continue;
      bbmc::check(d->ready() == rd.ready, rd.ready ? "a data the evaluation publishes is not ready after wait()" : "a data nobody needs was published");
      if (rd.ready) { bbmc::check(d->empty() == rd.empty, "a data's emptiness differs from the sequential evaluation"); if (!rd.empty) { const int* p = d->value<int>(); bbmc::check(p != nullptr && *p == rd.value, "a data holds a value different from the sequential evaluation"); } }
    }
    bbmc::observe((uint64_t)(rc != 0));
    if (cf.callback && cycle + 1 < cf.cycles) bbmc::require(pexec.initialize(2, 8) == 0, "pool restart");
  }
  if ((cf.exec == X_POOL1 || cf.exec == X_POOL2) && !cf.callback) pexec.stop();
}
