// sq_ids.cpp — C14 (sequential half): every allocate/free history of IdAllocator and every emplace/take history of
// DepositBox up to a depth, against a reference model. The concurrent half is harness/mc_ids.cpp.
#include <algorithm>
#include <set>
#include <string>
#include <vector>

#include "babylon/concurrent/deposit_box.h"
#include "babylon/concurrent/id_allocator.h"
#include "seqx.h"

using babylon::DepositBox;
using babylon::IdAllocator;
using babylon::VersionedValue;

// ---- IdAllocator ----------------------------------------------------------------------------------------------
enum { I_ALLOC, I_FREE_OLDEST, I_FREE_NEWEST, I_FREE_MIDDLE, I_NUM };
struct IdSys {
  IdAllocator<uint32_t> alloc; std::vector<VersionedValue<uint32_t>> held; std::set<uint32_t> model_free; uint32_t model_end = 0;
  static std::string name() { return "IdAllocator<uint32_t>"; }
  static int num_ops() { return I_NUM; }
  static std::string op_name(int op) { static const char* n[] = {"allocate", "deallocate(oldest held)", "deallocate(newest held)", "deallocate(middle held)"}; return n[op]; }
  bool enabled(int op) { if (op == I_ALLOC) return held.size() < 5; if (op == I_FREE_MIDDLE) return held.size() >= 3; return !held.empty(); }
  std::string apply(int op) {
    if (op == I_ALLOC) {
      auto id = alloc.allocate();
      for (auto& h : held) if (h.value == id.value) return "allocate returned value " + std::to_string(id.value) + " which is still held";
      if (!model_free.empty()) {
        if (!model_free.count(id.value)) return "allocate minted/returned value " + std::to_string(id.value) + " although freed values exist and none of them was reused";
        if (alloc.end() != model_end) return "end() moved although a freed value was reused";
        model_free.erase(id.value);
      } else {
        if (id.value != model_end) return "allocate with an empty free list returned " + std::to_string(id.value) + " instead of the next fresh value " + std::to_string(model_end);
        model_end++;
        if (alloc.end() != model_end) return "end() is not one past the last minted value";
      }
      held.push_back(id);
      return "";
    }
    size_t k = op == I_FREE_OLDEST ? 0 : op == I_FREE_NEWEST ? held.size() - 1 : held.size() / 2;
    auto id = held[k]; held.erase(held.begin() + (long)k);
    alloc.deallocate(id); model_free.insert(id.value);
    return "";
  }
  std::string check() {
    std::vector<uint32_t> got; std::string err;
    alloc.for_each([&](uint32_t b, uint32_t e) { if (b >= e) err = "for_each reported an empty or inverted range"; for (uint32_t v = b; v < e; v++) got.push_back(v); });
    if (!err.empty()) return err;
    std::vector<uint32_t> want; for (auto& h : held) want.push_back(h.value); std::sort(want.begin(), want.end());
    if (!std::is_sorted(got.begin(), got.end()) || std::adjacent_find(got.begin(), got.end()) != got.end()) return "for_each reported a value twice or out of order";
    if (got != want) return "for_each does not report exactly the live values: " + std::to_string(got.size()) + " reported, " + std::to_string(want.size()) + " live";
    if (alloc.end() != model_end) return "end() differs from the number of values ever minted";
    return "";
  }
  std::string canon() {
    std::string s = "end=" + std::to_string(alloc.end()) + " held=";
    for (auto& h : held) s += std::to_string(h.value) + ",";
    // free list order decides which value comes back next
    s += " free="; auto head = alloc._free_head; int guard = 0;
    for (uint32_t v = head.value; v != IdAllocator<uint32_t>::FREE_LIST_TAIL && guard < 16; guard++) { s += std::to_string(v) + ","; v = alloc._free_next_value[v].load(); }
    return s;
  }
};

// ---- DepositBox -----------------------------------------------------------------------------------------------
enum { B_EMPLACE, B_TAKE0, B_TAKE_REL0 = B_TAKE0 + 5, B_FINISH0 = B_TAKE_REL0 + 5, B_NUM = B_FINISH0 + 5 };
struct BoxSys {
  enum St { LIVE, TAKEN, DONE };
  DepositBox<int> box; struct Rec { VersionedValue<uint32_t> id; int value; St st; }; std::vector<Rec> issued; int nextv = 100;
  static std::string name() { return "DepositBox<int>"; }
  static int num_ops() { return B_NUM; }
  static std::string op_name(int op) {
    if (op == B_EMPLACE) return "emplace";
    if (op < B_TAKE_REL0) return "take(id#" + std::to_string(op - B_TAKE0) + ") and drop the accessor";
    if (op < B_FINISH0) return "take_released(id#" + std::to_string(op - B_TAKE_REL0) + ")";
    return "finish_released(id#" + std::to_string(op - B_FINISH0) + ")";
  }
  int live() { int n = 0; for (auto& r : issued) if (r.st != DONE) n++; return n; }
  bool enabled(int op) {
    if (op == B_EMPLACE) return issued.size() < 5 && live() < 3;
    if (op < B_TAKE_REL0) return (size_t)(op - B_TAKE0) < issued.size();
    if (op < B_FINISH0) return (size_t)(op - B_TAKE_REL0) < issued.size();
    return (size_t)(op - B_FINISH0) < issued.size() && issued[op - B_FINISH0].st == TAKEN;
  }
  std::string apply(int op) {
    if (op == B_EMPLACE) {
      int v = nextv++; auto id = box.emplace(v);
      for (auto& r : issued) if (r.st != DONE && r.id.value == id.value) return "emplace reused slot " + std::to_string(id.value) + " while its previous item is still deposited or being used";
      for (auto& r : issued) if (r.id.version_and_value == id.version_and_value) return "emplace returned an id that was issued before";
      issued.push_back({id, v, LIVE});
      return "";
    }
    if (op < B_TAKE_REL0) {
      Rec& r = issued[op - B_TAKE0];
      { auto acc = box.take(r.id);
        if ((bool)acc != (r.st == LIVE)) return r.st == LIVE ? "take with the id of a deposited item failed" : "take with a stale id (item already taken) succeeded";
        if (acc && *acc != r.value) return "take returned somebody else's item"; }
      if (r.st == LIVE) r.st = DONE;
      return "";
    }
    if (op < B_FINISH0) {
      Rec& r = issued[op - B_TAKE_REL0];
      int* p = box.take_released(r.id);
      if ((p != nullptr) != (r.st == LIVE)) return r.st == LIVE ? "take_released with the id of a deposited item failed" : "take_released with a stale id succeeded";
      if (p && *p != r.value) return "take_released returned somebody else's item";
      if (r.st == LIVE) r.st = TAKEN;
      return "";
    }
    Rec& r = issued[op - B_FINISH0];
    box.finish_released(r.id); r.st = DONE;
    return "";
  }
  std::string check() {
    for (auto& r : issued) if (r.st != DONE && box.unsafe_get(r.id) != r.value) return "a deposited item changed while deposited";
    return "";
  }
  std::string canon() {
    std::string s; for (auto& r : issued) s += std::to_string(r.id.value) + "." + std::to_string(r.id.version) + ":" + std::to_string((int)r.st) + ",";
    s += " end=" + std::to_string(box._slot_id_allocator.end()) + " headv=" + std::to_string(box._slot_id_allocator._free_head.version) + " free=";
    int guard = 0; for (uint32_t v = box._slot_id_allocator._free_head.value; v != IdAllocator<uint32_t>::FREE_LIST_TAIL && guard < 16; guard++) { s += std::to_string(v) + ","; v = box._slot_id_allocator._free_next_value[v].load(); }
    return s;
  }
};

static void register_systems() {
  seqx::add<IdSys>();
  seqx::add<BoxSys>();
}
SEQX_MAIN("sq_ids")
