"""props.py — per-property run specifications and the generic tier runner used by ./check."""
import json, os, subprocess, sys, time, shutil

V = '/verif'
B = V + '/build'
JOBS = int(os.environ.get('VERIF_JOBS', '16'))


def mc(binary, configs, mode, P, D=0, E=0, budget=120, extra=None, note=None):
    return dict(kind='mc', bin=binary, configs=configs, mode=mode, P=P, D=D, E=E, budget=budget, extra=extra or [], note=note)


def sq(binary, args, budget=120, note=None):
    return dict(kind='seqx', bin=binary, args=args, budget=budget, note=note)


COMMON_ASSUMPTIONS = [
    'bounded exploration: all schedules with at most P preemptions, D delayed stores (x86-TSO store buffers, byte granular), E environment deviations, for the listed client programs only',
    'every explored execution runs the real babylon code compiled from /repo/src with the production -O2 -DNDEBUG flags plus the compiler\'s ThreadSanitizer instrumentation, linked against the bbmc runtime (no libtsan)',
    'state-signature pruning (happens-before caching): equal per-thread histories with reads-from sources + equal last writers => equal futures; polling iterations that read exactly the same sources and write nothing are collapsed',
    'code inside uninstrumented shared libraries (libstdc++, abseil, protobuf) is atomic for the scheduler and invisible to the race detector',
    'weak-memory behaviour beyond x86-TSO is not generated; C++11 happens-before races on harness-registered payload are detected independently of the hardware model',
]

PROPS = {
    'C01': dict(
        title='bounded queue: exactly once, FIFO, exclusive published access',
        quick=[mc('mc_queue', 'all', 'sc', P=2, E=0, budget=150), mc('mc_queue', 'all', 'tso', P=1, D=1, E=1, budget=150), sq('sq_queue', ['--depth', '7'], budget=200)],
        thorough=[mc('mc_queue', 'all', 'sc', P=3, E=1, budget=400), mc('mc_queue', 'all', 'tso', P=2, D=2, E=1, budget=400), sq('sq_queue', ['--depth', '10'], budget=300)],
        oracle='multiset conservation, FIFO for ordered operations, try_ results, HB race detector on slot payload, torn-element check; sequential half (sq_queue): every sequence of the 12 non-blocking / non-blocked operations vs std::deque for capacities 1/2/4, with macro operations that really pass 32766/32767 laps through the queue (16-bit version wrap inside the histories); the fast_forward() short cut used by the concurrent programs that start just before the wrap is compared field by field with the really reached state; three more systems add clear(), swap() with a second queue and reserve_and_clear() to the same / another capacity (one step shallower): reuse after each of them against the same reference',
    ),
    'C02': dict(
        title='bounded queue: no lost wake-up, timed pop',
        quick=[mc('mc_queue', '18-19,27-34,38-42,46-47', 'tso', P=2, D=1, E=1, budget=250)],
        thorough=[mc('mc_queue', '18-19,27-34,38-42,46-47', 'tso', P=3, D=2, E=1, budget=400), mc('mc_queue', '0-9,16-17', 'tso', P=2, D=2, E=1, budget=400)],
        oracle='deadlock / livelock detector of the owning scheduler (every blocking call returns), timed pop bounded by its deadline on the virtual clock',
    ),
    'C18': dict(
        title='hash set/map vs reference after any history',
        quick=[sq('sq_hash', ['--depth', '4'], budget=200)],
        thorough=[sq('sq_hash', ['--depth', '6'], budget=300)],
        oracle='after every operation: size(), full iteration (each element once), find/contains/count for every key of the universe, mapped values = first inserted, all equal std::unordered_* driven by the same operations; ASan+UBSan',
        assumptions=['operation alphabet and key universe as listed in harness/sq_hash.cpp (macro operations cross the 16/32/64 table sizes); histories up to the stated depth; deterministic harness hash function'],
    ),
    'C06': dict(
        title='monotonic resources: blocks disjoint, aligned, stable; release frees all once',
        quick=[sq('sq_mres', ['--depth', '4'], budget=200), mc('mc_mres', '0,3,4,5', 'sc', P=2, budget=150), mc('mc_mres', '1,2', 'sc', P=1, budget=150)],
        thorough=[sq('sq_mres', ['--depth', '6'], budget=300), mc('mc_mres', 'all', 'sc', P=3, budget=400), mc('mc_mres', 'all', 'tso', P=1, D=1, budget=400)],
        oracle='interval map of live blocks (aligned, inside owned memory, pairwise disjoint, disjoint from page/oversize/destroy-task arrays read from the private fields), unique fill pattern per block re-checked at every step, recording page allocator and recording upstreams (each page/oversize block returned exactly once, to where it came from, with the same bytes/alignment), destructor order, accounting; babylon\'s own ASan poisoning active; concurrent half (mc_mres): blocks handed to different threads (and to successive threads reusing a thread-local slot) are aligned, inside pages / oversize blocks the resource currently owns, pairwise disjoint and keep their fill pattern until release(); release() runs each registered destructor once and returns each page / oversize block exactly once; accounting; concurrent protobuf Arena conversion yields one arena',
        assumptions=['page sizes 256/512/4096; request alphabet around the page size and the 15-entry in-page arrays as listed in harness/sq_mres.cpp'],
    ),
    'C12': dict(
        title='reusable containers match std behaviour; clearing keeps capacity for reuse',
        quick=[sq('sq_rvec', ['--depth', '4'], budget=300)],
        thorough=[sq('sq_rvec', ['--depth', '5'], budget=300)],
        oracle='element-wise equality with std::vector/std::string after every operation, size <= constructed_size <= capacity, capacity never shrinks under logical clear, accessor validity and zero growth of space_allocated() for converged workloads under ReusableManager; ASan+UBSan',
        assumptions=['element types int, SwissString, nested SwissVector<int>; positions begin/middle/end; value alphabet of three values; aliasing-argument calls are explored in their own system'],
    ),
    'C08': dict(
        title='future / promise / latch: value reaches every waiter and callback exactly once',
        quick=[mc('mc_future', 'all', 'sc', P=2, E=1, budget=120), mc('mc_future', 'all', 'tso', P=1, D=1, E=1, budget=120)],
        thorough=[mc('mc_future', 'all', 'sc', P=3, E=1, budget=400), mc('mc_future', 'all', 'tso', P=2, D=2, E=1, budget=400)],
        oracle='callback counters exactly 1 with the value that was set and never before set_value began; get() returns the value; wait_for true => ready, false => virtual elapsed time >= timeout; every waiter returns (deadlock detector); latch ready exactly at zero; HB race detector on the stored value',
    ),
    'C14': dict(
        title='id allocator / thread ids / deposit box',
        quick=[mc('mc_ids', 'all', 'sc', P=2, E=1, budget=150), sq('sq_ids', ['--depth', '12'], budget=100)],
        thorough=[mc('mc_ids', 'all', 'sc', P=3, E=1, budget=400), mc('mc_ids', 'all', 'tso', P=1, D=1, E=0, budget=400), sq('sq_ids', ['--depth', '18'], budget=300)],
        oracle='harness ownership map (no value held twice), quiescent reuse and for_each = live set, thread ids unique while live and recycled after death, exactly one taker per deposit id, stale ids never match after slot reuse; sequential half (sq_ids): every allocate/free history (5 held values) and every emplace/take/take_released/finish_released history over 5 issued ids vs a reference model: reuse instead of minting, end(), for_each = live set, take succeeds iff the id is live and returns its own item',
    ),
    'C16': dict(
        title='execution queue: items consumed once, one consumer at a time, none stranded',
        quick=[mc('mc_execq', 'all', 'sc', P=2, E=2, budget=150), mc('mc_execq', '0-5', 'tso', P=1, D=1, E=0, budget=100)],
        thorough=[mc('mc_execq', 'all', 'sc', P=3, E=2, budget=400), mc('mc_execq', 'all', 'tso', P=2, D=1, E=2, budget=400)],
        oracle='every item consumed exactly once and per producer in order; consume function never concurrent (plain flag under the HB race detector); join() returns, and only after everything was consumed; after refused launches (fault choices, E) the next accepted signal drains everything',
    ),
    'C09': dict(
        title='epoch: nothing becomes reclaimable while a reader that may see it is in a region',
        quick=[mc('mc_epoch', '0,2,3,5,7,8', 'tso', P=2, D=2, E=0, budget=150), mc('mc_epoch', '1,4,6', 'tso', P=2, D=1, E=0, budget=250), mc('mc_epoch', 'all', 'sc', P=2, budget=100)],
        thorough=[mc('mc_epoch', 'all', 'tso', P=2, D=2, E=0, budget=400), mc('mc_epoch', 'all', 'sc', P=3, budget=400), mc('mc_epoch', '0,2,3,5,7,8', 'tso', P=3, D=2, E=0, budget=400)],
        oracle='writer protocol of GarbageCollector (unlink, tick, reclaim iff low_water_mark() >= tick); reclaim poisons + deletes: a reader inside its region touching a reclaimed object trips the freed-memory oracle and an explicit flag; after all regions closed low_water_mark() == UINT64_MAX',
        assumptions=['tick() weakened to relaxed would still be a locked instruction on x86 and is not observable under TSO (DESIGN section 7)'],
    ),
    'C10': dict(
        title='garbage collector: reclaimers run exactly once, never early, before stop returns',
        quick=[mc('mc_gc', '0,1,3,4,5,6,7', 'sc', P=2, E=0, budget=300), mc('mc_gc', '2', 'sc', P=1, E=0, budget=60)],
        thorough=[mc('mc_gc', 'all', 'sc', P=2, E=1, budget=400), mc('mc_gc', '0,1,3,4,6,7', 'sc', P=3, E=0, budget=400), mc('mc_gc', '0,1', 'tso', P=2, D=1, budget=400)],
        oracle='per reclaimer: invoked exactly once when stop()/the destructor returned, never while a region that was open at its retirement is still open, never destroyed uninvoked; retire blocks on a full queue and resumes (deadlock detector)',
    ),
    'C15': dict(
        title='transient topic: each subscriber sees every item once, in order, then the end',
        quick=[mc('mc_topic', 'all', 'sc', P=2, E=0, budget=100), mc('mc_topic', '0,1,3,4,6,7,8', 'tso', P=2, D=1, E=1, budget=200), mc('mc_topic', '2,5', 'tso', P=1, D=1, E=0, budget=300)],
        thorough=[mc('mc_topic', 'all', 'sc', P=3, E=1, budget=400), mc('mc_topic', '0,1,3,4,6,7', 'tso', P=3, D=2, E=1, budget=400), mc('mc_topic', '2,5', 'tso', P=2, D=1, E=1, budget=400)],
        oracle='every consumer receives exactly the published items in publication-index order (per-publisher order for concurrent publishers), payload complete (checksum + HB race detector on the slot values), blocks instead of returning short before close, end marker after close, no lost wake-up (deadlock detector), same again after clear()',
    ),
    'C03': dict(
        title='concurrent hash set/map: linearizable insert-if-absent, one winner per key',
        quick=[mc('mc_hash', 'all', 'sc', P=2, E=1, budget=200), mc('mc_hash', '0,1,3,4,8,9,10,11', 'tso', P=1, D=1, E=0, budget=150)],
        thorough=[mc('mc_hash', 'all', 'sc', P=3, E=1, budget=400), mc('mc_hash', 'all', 'tso', P=2, D=1, E=0, budget=400)],
        oracle='per key: exactly one successful insertion, all calls return the same element address, lookups starting after an insertion returned hit (logical stamps), elements fully constructed when visible (value check + HB race detector over the value array), full fixed table rejects without consuming a move-only argument, contents/size/iteration at quiescence',
        assumptions=['harness hash function places keys in chosen groups with chosen 7-bit tags (collisions, equal tags, group wrapping the table end)'],
    ),
    'C04': dict(
        title='concurrent vector: stable addresses, one element per index, built/destroyed once',
        quick=[mc('mc_vector', 'all', 'sc', P=2, E=0, budget=200)],
        thorough=[mc('mc_vector', 'all', 'sc', P=3, E=1, budget=400), mc('mc_vector', '0,1,2,3,8', 'tso', P=1, D=1, E=0, budget=400)],
        oracle='one address per index across threads and over time; per-address construction/destruction counters (exactly once, losers\' speculative blocks destroyed once and never visible); snapshots read through superseded block tables: the freed-memory oracle + virtual clock flag any table freed < 64 s after the growth that superseded it (clock scripts: +0, +63 s, +64 s across the 16-bit wrap, +130 s while a retire is stalled); HB race detector on elements',
    ),
    'C17': dict(
        title='page allocators / object pool: resources conserved, never shared, never lost',
        quick=[mc('mc_pages', 'all', 'sc', P=2, E=0, budget=200), sq('sq_pages', ['--depth', '12'], budget=100)],
        thorough=[mc('mc_pages', 'all', 'sc', P=3, E=1, budget=400), mc('mc_pages', '0-4,7,8', 'tso', P=1, D=1, E=0, budget=400), sq('sq_pages', ['--depth', '16'], budget=300)],
        oracle='ownership map over a recording upstream whose pages are never reused: nothing handed out that another caller holds or that was already returned upstream, nothing returned twice or while held; at quiescence obtained - returned = held + cached; destruction returns the cache; strict pool: outstanding <= injected and blocked pops resume (deadlock detector); auto pool: recycler once per return, overflow destroyed, nothing leaked; sequential half (sq_pages): every allocate/deallocate history (batches of 1-3, up to 6 held pages) on cached (capacity 1/2/4), batch (2/3/default) and counting-over-cached allocators and every pop/try_pop/drop/push history on strict and auto-creating pools: conservation after every step, nothing handed out twice or after return, destruction returns exactly the cache',
    ),
    'C19': dict(
        title='counters / enumerable thread locals: aggregates exact across thread and instance churn',
        quick=[mc('mc_counter', 'all', 'sc', P=2, E=0, budget=150)],
        thorough=[mc('mc_counter', 'all', 'sc', P=3, E=1, budget=400), mc('mc_counter', '0,2,7,10', 'tso', P=1, D=1, E=0, budget=400)],
        oracle='exact sum / sum+count / extreme at every quiescent read over generations of threads (slot reuse) and generations of counter instances (storage reuse, moves); values chosen from {min,-1,0,1,max}; local() identity and privacy; for_each covers every slot ever used, for_each_alive exactly the live ones (both overloads); concurrent read bounded by completed-before / started-before contributions',
        assumptions=['histories of thread births/deaths and instance create/destroy/move are enumerated through data choices (bbmc::choose) up to 4 steps'],
    ),
    'C07': dict(
        title='executors: an accepted task runs exactly once; stop() drains submitted work',
        quick=[mc('mc_exec', '0,2,3,4,6,7,8', 'sc', P=1, E=1, budget=150), mc('mc_exec', '1,5,10', 'sc', P=1, E=0, budget=150)],
        thorough=[mc('mc_exec', 'all', 'sc', P=2, E=1, budget=400), mc('mc_exec', '0,2,4', 'tso', P=1, D=1, E=0, budget=400)],
        oracle='run counter per accepted task exactly 1, is_running_in() true inside tasks and children, futures ready with the result when stop()/join() returns, children spawned into local queues finished before stop() returns, refused submissions (fault choices) never run and yield invalid futures, no deadlock with full queues',
    ),
    'C13': dict(
        title='coroutines: each suspension resumed exactly once, on its executor, right result',
        quick=[sq('sq_coro', ['--depth', '8', '--jobs', '1'], budget=60), mc('mc_coro', 'all', 'sc', P=2, E=1, budget=150), mc('mc_coro', '0,1,2,4,5,6,9,10,11,13', 'tso', P=1, D=1, E=0, budget=150)],
        thorough=[sq('sq_coro', ['--depth', '10', '--jobs', '1'], budget=200), mc('mc_coro', 'all', 'sc', P=3, E=1, budget=400), mc('mc_coro', 'all', 'tso', P=2, D=1, E=0, budget=400)],
        oracle='per suspension a resume counter that must be exactly 1 at the end (0 = left suspended, 2 = double resume, also caught by the freed-frame oracle), resumption observed inside the bound executor, awaited value / empty optional iff the cancel call returned true, wake_one/wake_all return values vs coroutines actually resumed, DepositBox slots ever allocated <= simultaneously pending waits, HB race detector on the recycled per-wait nodes; sequential half (sq_coro): every sequence of wait / non-suspending wait / wake_one / wake_all / cancel(k) on one futex over an inplace executor vs the set of suspended waiters (return values, who is resumed, exactly once; a hung operation is reported with its history)',
    ),
    'C20': dict(
        title='logging: each committed entry written once, intact, in order; pages returned',
        quick=[sq('sq_log', ['--depth', '7'], budget=150), mc('mc_log', '0-4,6,7', 'sc', P=2, E=0, budget=150), mc('mc_log', '5', 'sc', P=1, E=0, budget=100)],
        thorough=[sq('sq_log', ['--depth', '10'], budget=300), mc('mc_log', 'all', 'sc', P=3, E=0, budget=400), mc('mc_log', '0-4', 'tso', P=1, D=1, E=0, budget=400)],
        oracle='scatter list rebuilt from the size alone = bytes streamed, every backing page (data and page-table pages) listed exactly once, allocator balance zero after discard / after the writer thread wrote; captured writev() bytes per (fake) descriptor = interleaving of whole entries, each once, per thread in program order; nothing pending after close(); rotated descriptor closed once',
        assumptions=['page sizes 64/128/256 (page tables of 7/15/31 pointers); writev never returns short (the property does not quantify over short writes)'],
    ),
    'C05': dict(
        title='anyflow: a run equals sequential demand-driven evaluation; each vertex runs at most once',
        quick=[mc('mc_anyflow', '0-20,23-24,29-31', 'sc', P=2, budget=400), mc('mc_anyflow', '21', 'sc', P=0, budget=200), mc('mc_anyflow', '1-14,23-24,30-31', 'tso', P=1, D=1, budget=300), mc('mc_anyflow', '27-28', 'sc', P=1, budget=150)],
        thorough=[mc('mc_anyflow', '0-20,23-25,29-31', 'sc', P=3, budget=400), mc('mc_anyflow', '1-14,23-24', 'tso', P=2, D=1, budget=400), mc('mc_anyflow', '21', 'sc', P=0, budget=400), mc('mc_anyflow', '22', 'sc', P=1, budget=400), mc('mc_anyflow', '26-28', 'sc', P=2, budget=400)],
        oracle='sequential demand-driven reference interpreter written in the harness: closure finished, success/failure and error code, every target value, every data (ready/empty/value), the exact set of processors run (each at most once, only needed ones), the inputs each processor saw, dependency verdict (condition ready; target ready iff condition holds) at invocation, started==finished for every vertex when wait() returns, second run after reset(); HB race detector on data payload and dependency verdicts; deadlock detector',
        assumptions=['curated graphs (diamond, on/unless, punch-through, essential, trivial, nested conditions, missing/empty/injected inputs, failing vertex, target subsets) under an inplace executor, a thread-per-vertex executor and ThreadPoolGraphExecutor with 1-2 workers; plus the generated family: all dependency shapes of a 3-vertex graph over a 4-name pool (141120 structures x 4 input valuations)', 'the Closure object outlives every external emit into the graph (an emit into a graph whose closure was destroyed is outside the harness)', 'GraphDependency::_established is not under the race detector: two threads may store the same value true to it without ordering (benign same-value write; reported in DESIGN.md)'],
    ),
    'C11': dict(
        title='serialization: round trip, exact size, protobuf wire compat, hostile-input safe',
        quick=[sq('sq_ser', ['--full-len', '2', '--reduced-len', '4'], budget=150), sq('sq_ser_dbg', ['--full-len', '2', '--reduced-len', '4'], budget=150)],
        thorough=[sq('sq_ser', ['--full-len', '2', '--reduced-len', '6'], budget=300), sq('sq_ser_dbg', ['--full-len', '2', '--reduced-len', '5'], budget=300)],
        oracle='for every value of the alphabets: predicted size = bytes produced, parse through 10 presentations (string, array, chunked coded streams 1/2/3/7 bytes with and without an enclosing limit) = value (smart pointer to an empty encoding reads back null); protobuf TestMessage vs BABYLON_COMPATIBLE mirror both directions, all 24 field orders, unknown fields of every wire type at every position, absent fields keep values; ALL byte strings up to the bound into 15 target types under ASan+UBSan: no report, and accepted values serialise, parse back equal, second round is a fixed point',
        assumptions=['byte strings: every string of length <= 2 over all 256 byte values and every string up to the stated length over a 16-byte schema alphabet (tags of fields 1-4 with all wire types, length bytes inside/at/past the end, continuation bytes)', 'NDEBUG and debug (wire-type checking) builds are both run', 'UBSan checks null and nonnull-attribute are off: babylon binds a reference to a null table in a default iterator and passes (nullptr, 0) to memcpy through protobuf, both benign'],
    ),
}

SEQX_ASSUMPTIONS = [
    'bounded exploration: every operation sequence over the listed alphabet up to the stated depth, breadth first, states deduplicated by a canonical form that keeps every field the implementation branches on',
    'each transition replays its history on a fresh implementation object built from /repo/src (ASan+UBSan build) and compares with a reference model step by step; the canonical form is asserted equal on replay',
]


def build(targets):
    r = subprocess.run(['make', '-s', '-C', V, '-j', str(JOBS)] + targets, stdout=subprocess.PIPE, stderr=subprocess.STDOUT, text=True)
    if r.returncode != 0:
        print(r.stdout[-6000:])
        print('check: build failed')
        sys.exit(2)


class _Done:
    def __init__(self, rc, out):
        self.returncode = rc; self.stdout = out


def run_driver(cmd, budget):
    """Run one harness process in its own process group; its output goes to a file (worker processes inherit the
    descriptors, a pipe would keep the front end waiting for them). None = it did not end within budget + slack."""
    import signal, tempfile
    with tempfile.TemporaryFile(mode='w+') as log:
        p = subprocess.Popen(cmd, stdout=log, stderr=subprocess.STDOUT, start_new_session=True)
        try:
            rc = p.wait(timeout=budget * 2 + 300)
        except subprocess.TimeoutExpired:
            rc = None
        try:
            os.killpg(p.pid, signal.SIGKILL)   # whatever is left of the group (normally nothing)
        except ProcessLookupError:
            pass
        if rc is None:
            p.wait()
            return None
        log.seek(0)
        return _Done(rc, log.read()[-4000:])


def expand_configs(spec, binary):
    """'all' | 'a-b,c,d-e' -> list of (lo,hi) ranges"""
    return [spec]   # the driver takes 'all' or a comma separated list of numbers / ranges and shares the budget fairly


def load_known():
    try:
        return json.load(open(V + '/known_findings.json'))
    except FileNotFoundError:
        return []


def match_known(known, prop, harness, config_name, message):
    for k in known:
        if k.get('kind') != 'finding' or k.get('property') != prop:
            continue
        if k.get('harness') not in (None, harness):
            continue
        if k.get('config') is not None and k['config'] not in config_name:
            continue
        if k.get('oracle') and k['oracle'] not in message:
            continue
        return k
    return None


def run_property(prop, tier):
    t_start = time.time()
    spec = PROPS[prop]
    runs = spec[tier]
    bins = sorted(set(r['bin'] for r in runs))
    build([B + '/' + b for b in bins])
    rdir = '%s/replays/%s' % (V, prop)
    os.makedirs(rdir, exist_ok=True)
    os.makedirs(B + '/out', exist_ok=True)
    os.makedirs(V + '/evidence', exist_ok=True)
    known = load_known()
    seed = int(os.environ.get('VERIF_SEED', '0') or 0)
    tot = dict(states=0, transitions=0, executions=0, pruned=0, choice_points=0, configs=0, distinct_outcomes=0, unscoped_races=0)
    per_run = []
    samples = []
    violations = []  # (harness, config_name, message, replay)
    machinery = []
    exhaustive = True
    for idx, r in enumerate(runs):
        if r['kind'] == 'mc':
            for ci, cr in enumerate(expand_configs(r['configs'], r['bin'])):
                out = '%s/out/%s-%s-%d-%d.json' % (B, prop, tier, idx, ci)
                if os.path.exists(out):
                    os.remove(out)
                cmd = [B + '/' + r['bin'], '--config', cr, '--mode', r['mode'], '--P', str(r['P']), '--D', str(r['D']), '--E', str(r['E']),
                       '--jobs', str(JOBS), '--budget-s', str(r['budget']), '--replay-dir', rdir, '--out', out] + r['extra']
                pr = run_driver(cmd, r['budget'])
                if pr is None:
                    machinery.append('driver hung: ' + ' '.join(cmd)); continue
                try:
                    d = json.load(open(out))
                except Exception as e:
                    machinery.append('no result from %s (rc=%s): %s %s' % (' '.join(cmd), pr.returncode, e, pr.stdout[-1500:])); continue
                rs = dict(harness=d['harness'], mode=d['mode'], bound=d['bound'], configs=len(d['configs']), executions=0, states=0, transitions=0, wall_s=d['wall_s'], complete=d['all_complete'], config_range=cr)
                # iterative bounding: what every program of this run finished completely, even when the requested bound was cut by the time or memory budget
                rs['bound_completed_by_every_program'] = {k: min([c['bound_completed'][k] for c in d['configs']] or [-1]) for k in ('P', 'D', 'E')}
                rs['programs_cut_by_budget'] = [c['config'] for c in d['configs'] if not c['complete'] and not c['violations']]
                for c in d['configs']:
                    for k in ('states', 'transitions', 'executions', 'pruned', 'choice_points', 'unscoped_races'):
                        tot[k] += c.get(k, 0)
                    tot['configs'] += 1
                    tot['distinct_outcomes'] += c['distinct_outcomes']
                    rs['executions'] += c['executions']; rs['states'] += c['states']; rs['transitions'] += c['transitions']
                    if not c['complete'] and not c['violations']:
                        exhaustive = False
                    for v in c['violations']:
                        violations.append((d['harness'], c['name'], v['outcome'] + ': ' + v['message'], v['replay']))
                    for e in c['errors']:
                        machinery.append('%s config %d (%s): %s: %s [devs %s]' % (d['harness'], c['config'], c['name'], e['outcome'], e['message'], e.get('devs')))
                    if len(samples) < 6 and c['samples']:
                        s = c['samples'][-1]
                        samples.append(dict(harness=d['harness'], program=c['name'], mode=d['mode'], schedule_deviations=s['devs'], visible_operations=s['steps'], outcome_hash=s['outcome_hash']))
                per_run.append(rs)
        else:
            out = '%s/out/%s-%s-%d.json' % (B, prop, tier, idx)
            if os.path.exists(out):
                os.remove(out)
            cmd = [B + '/' + r['bin']] + r['args'] + ['--budget-s', str(r['budget']), '--replay-dir', rdir, '--out', out]
            pr = run_driver(cmd, r['budget'])
            if pr is None:
                machinery.append('driver hung: ' + ' '.join(cmd)); continue
            try:
                d = json.load(open(out))
            except Exception as e:
                machinery.append('no result from %s (rc=%s): %s %s' % (' '.join(cmd), pr.returncode, e, pr.stdout[-1500:])); continue
            for k in ('states', 'transitions', 'executions'):
                tot[k] += d.get(k, 0)
            tot['configs'] += d.get('systems', 1)
            if not d.get('complete', False) and not d.get('violations'):
                exhaustive = False
            for v in d.get('violations', []):
                violations.append((d['harness'], v.get('system', ''), v['message'], v['replay']))
            for e in d.get('errors', []):
                machinery.append('%s: %s' % (d['harness'], e))
            samples.extend(d.get('samples', [])[:3])
            per_run.append(dict(harness=d['harness'], kind='seqx', states=d.get('states', 0), transitions=d.get('transitions', 0), executions=d.get('executions', 0), wall_s=d.get('wall_s', 0), complete=d.get('complete', False), detail=d.get('detail')))
    # classify violations
    new_v, known_v = [], []
    for (h, cn, msg, rp) in violations:
        k = match_known(known, prop, h, cn, msg)
        (known_v if k else new_v).append((h, cn, msg, rp, k))
    ev = dict(
        property_id=prop, tier=tier, seed=seed, level='model_checking',
        coverage=dict(
            states=max(tot['states'], 1) if tot['executions'] else 0, transitions=tot['transitions'], traces_validated_against_impl=tot['executions'],
            samples=samples or ['(no sample recorded)'], exhaustive=bool(exhaustive and not machinery),
            executions=tot['executions'], pruned_by_state_cache=tot['pruned'], choice_points=tot['choice_points'], programs_or_systems=tot['configs'],
            distinct_outcomes_summed_over_programs=tot['distinct_outcomes'], unscoped_races=tot['unscoped_races'], per_run=per_run,
            oracle=spec.get('oracle', ''),
            explanation='states = distinct state signatures (bbmc) / canonical states (seqx); transitions = visible operations executed / model transitions; every execution ran the implementation itself, there is no separate model',
        ),
        assumptions=(SEQX_ASSUMPTIONS if all(r['kind'] == 'seqx' for r in runs) else COMMON_ASSUMPTIONS + (SEQX_ASSUMPTIONS if any(r['kind'] == 'seqx' for r in runs) else [])) + spec.get('assumptions', []),
        wall_s=round(time.time() - t_start, 2), violations=len(new_v),
        known_findings=[dict(harness=h, config=cn, message=msg) for (h, cn, msg, rp, k) in known_v],
        machinery_errors=machinery,
    )
    json.dump(ev, open('%s/evidence/%s.json' % (V, prop), 'w'), indent=1)
    for (h, cn, msg, rp, k) in known_v:
        print('KNOWN-FINDING: property=%s %s [%s / %s]' % (prop, k.get('what', msg), h, cn))
    for (h, cn, msg, rp, k) in new_v:
        print('VIOLATION property=%s replay=%s' % (prop, rp))
        print('  %s / %s: %s' % (h, cn, msg))
    print('%s %s: %d executions, %d states, %d transitions, %d programs/systems, exhaustive=%s, wall %.1fs' % (prop, tier, tot['executions'], tot['states'], tot['transitions'], tot['configs'], ev['coverage']['exhaustive'], ev['wall_s']))
    if machinery:
        for m in machinery[:10]:
            print('MACHINERY-ERROR:', m)
        return 2
    return 1 if new_v else 0


def replay(prop, path):
    d = json.load(open(path))
    h = d['harness']
    build([B + '/' + h])
    if d.get('kind') == 'seqx':
        return subprocess.run([B + '/' + h, '--replay', path]).returncode
    return subprocess.run([B + '/' + h, '--replay', path]).returncode
