setup:
	@echo "nothing to build yet"
