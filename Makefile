# /verif/Makefile — builds the bbmc runtime, the instrumented babylon objects and the harnesses.
REPO ?= /repo
B := /verif/build
CXX := g++
INC := -I/verif/rt -I/verif/harness -I$(REPO)/src -isystem /root/miniconda/include
MCFLAGS := -std=gnu++20 -O2 -g -DNDEBUG -fsanitize=thread -U__SANITIZE_THREAD__ --param tsan-instrument-func-entry-exit=0 -Wno-tsan -Wno-deprecated-declarations $(INC)
RTFLAGS := -std=gnu++20 -O2 -g -Wall -Wno-unused -Wno-volatile -Wno-misleading-indentation -Wno-format-truncation -Wno-return-type -I/verif/rt -isystem /root/miniconda/include
LIBS := -lprotobuf -labsl_time -labsl_time_zone -labsl_base -labsl_strings -labsl_str_format_internal -labsl_hash -labsl_city -labsl_low_level_hash -labsl_raw_hash_set -labsl_throw_delegate -labsl_raw_logging_internal -labsl_int128 -ldl -lpthread

# babylon translation units needed by the model-checking harnesses (compiled from the current working tree)
BSRC := $(filter-out $(REPO)/src/babylon/reusable/message.trick.cpp $(REPO)/src/babylon/anyflow/builtin/expression.cpp, \
        $(wildcard $(REPO)/src/babylon/*.cpp $(REPO)/src/babylon/concurrent/*.cpp $(REPO)/src/babylon/coroutine/*.cpp \
                   $(REPO)/src/babylon/logging/*.cpp $(REPO)/src/babylon/reusable/*.cpp $(REPO)/src/babylon/anyflow/*.cpp \
                   $(REPO)/src/babylon/anyflow/builtin/*.cpp $(REPO)/src/babylon/serialization/*.cpp))
BOBJ := $(patsubst $(REPO)/src/%.cpp,$(B)/mc/%.o,$(BSRC))

MCH := $(patsubst /verif/harness/%.cpp,%,$(wildcard /verif/harness/mc_*.cpp)) litmus

.PHONY: setup rt mc-objs all-mc
ALLMC := $(patsubst /verif/harness/%.cpp,$(B)/%,$(wildcard /verif/harness/mc_*.cpp))
ALLSQ := $(patsubst /verif/harness/%.cpp,$(B)/%,$(wildcard /verif/harness/sq_*.cpp)) $(B)/sq_ser_dbg
setup: rt $(B)/litmus $(ALLMC) $(ALLSQ)
	python3 /verif/check selftest

rt: $(B)/bbmc_rt.o
$(B)/bbmc_rt.o: /verif/rt/bbmc_rt.cpp $(wildcard /verif/rt/*.inc) /verif/rt/bbmc.h
	@mkdir -p $(B)
	$(CXX) $(RTFLAGS) -c $< -o $@

$(B)/mc/%.o: $(REPO)/src/%.cpp
	@mkdir -p $(dir $@)
	$(CXX) $(MCFLAGS) -MMD -MP -c $< -o $@
$(B)/mc/libbabylon_mc.a: $(BOBJ)
	rm -f $@ && ar rcs $@ $(BOBJ)
mc-objs: $(B)/mc/libbabylon_mc.a

$(B)/h/%.o: /verif/harness/%.cpp /verif/rt/bbmc.h
	@mkdir -p $(dir $@)
	$(CXX) $(MCFLAGS) -fno-access-control -MMD -MP -c $< -o $@
$(B)/litmus: $(B)/h/litmus.o $(B)/bbmc_rt.o
	$(CXX) -o $@ $^ $(LIBS)
$(B)/mc_%: $(B)/h/mc_%.o $(B)/bbmc_rt.o $(B)/mc/libbabylon_mc.a
	$(CXX) -o $@ $(B)/h/mc_$*.o $(B)/bbmc_rt.o $(B)/mc/libbabylon_mc.a $(LIBS)

# ---- seqx flavour: ASan + UBSan, no model runtime ----------------------------------------------------------
SQFLAGS := -std=gnu++20 -O1 -g -fsanitize=address,undefined -fno-sanitize=null,nonnull-attribute -fno-sanitize-recover=all -fno-omit-frame-pointer -Wno-deprecated-declarations $(INC)
AOBJ := $(patsubst $(REPO)/src/%.cpp,$(B)/asan/%.o,$(BSRC))
$(B)/asan/%.o: $(REPO)/src/%.cpp
	@mkdir -p $(dir $@)
	$(CXX) $(SQFLAGS) -DNDEBUG -MMD -MP -c $< -o $@
$(B)/asan/libbabylon_asan.a: $(AOBJ)
	rm -f $@ && ar rcs $@ $(AOBJ)
$(B)/hs/%.o: /verif/harness/%.cpp /verif/harness/seqx.h
	@mkdir -p $(dir $@)
	$(CXX) $(SQFLAGS) -DNDEBUG -fno-access-control -MMD -MP -c $< -o $@
# serialization harness: needs the generated code of the repository's test proto
$(B)/gen/arena_example.pb.cc: $(REPO)/test/proto/arena_example.proto
	@mkdir -p $(B)/gen
	protoc --cpp_out=$(B)/gen -I $(REPO)/test/proto $<
$(B)/gen/arena_example.pb.o: $(B)/gen/arena_example.pb.cc
	$(CXX) $(SQFLAGS) -DNDEBUG -I$(B)/gen -c $< -o $@
$(B)/hs/sq_ser.o: /verif/harness/sq_ser.cpp $(B)/gen/arena_example.pb.cc
	@mkdir -p $(dir $@)
	$(CXX) $(SQFLAGS) -DNDEBUG -I$(B)/gen -fno-access-control -MMD -MP -c $< -o $@
$(B)/hs/sq_ser_dbg.o: /verif/harness/sq_ser.cpp $(B)/gen/arena_example.pb.cc
	@mkdir -p $(dir $@)
	$(CXX) $(SQFLAGS) -UNDEBUG -I$(B)/gen -fno-access-control -MMD -MP -c $< -o $@
$(B)/sq_ser: $(B)/hs/sq_ser.o $(B)/gen/arena_example.pb.o $(B)/asan/libbabylon_asan.a
	$(CXX) -fsanitize=address,undefined -o $@ $(B)/hs/sq_ser.o $(B)/gen/arena_example.pb.o $(B)/asan/libbabylon_asan.a $(LIBS)
$(B)/sq_ser_dbg: $(B)/hs/sq_ser_dbg.o $(B)/gen/arena_example.pb.o $(B)/asan/libbabylon_asan.a
	$(CXX) -fsanitize=address,undefined -o $@ $(B)/hs/sq_ser_dbg.o $(B)/gen/arena_example.pb.o $(B)/asan/libbabylon_asan.a $(LIBS)
$(B)/sq_%: $(B)/hs/sq_%.o $(B)/asan/libbabylon_asan.a
	$(CXX) -fsanitize=address,undefined -o $@ $(B)/hs/sq_$*.o $(B)/asan/libbabylon_asan.a $(LIBS)

-include $(BOBJ:.o=.d) $(AOBJ:.o=.d) $(wildcard $(B)/hs/*.d) $(wildcard $(B)/h/*.d)
