#!/bin/bash
# tools_demo.sh <seed-id> [extra g++ args] — run a seeded change's demonstration on the patched and on the unpatched tree
# (scratch worktree /tmp/wt_confirm). Header-only demos; others are run by hand.
sid=$1; shift; d=/verif/seeded/$sid; wt=${WT:-/tmp/wt_confirm}
cd $wt; git checkout -q -- .
res=""
for mode in unpatched patched; do
  git checkout -q -- .
  if [ $mode = patched ]; then git apply $d/patch.diff; [ -f $d/demo_delay.diff ] && git apply $d/demo_delay.diff; extra="-DDEMO_DELAY -DBABYLON_DEMO_DELAY"; else if [ -f $d/demo_delay_unpatched.diff ]; then git apply $d/demo_delay_unpatched.diff; elif [ -f $d/demo_delay.diff ] && git apply --check $d/demo_delay.diff 2>/dev/null; then git apply $d/demo_delay.diff; fi; extra="-DDEMO_DELAY -DBABYLON_DEMO_DELAY"; fi
  for try in 1 2 3; do cmake --build $wt/_build --target babylon -j10 > /tmp/demo_lib_$sid.log 2>&1 && break; done
  cpps=""; [ -f $d/demo_delay.diff ] && cpps=$(grep '^+++ b/' $d/demo_delay.diff | sed 's|^+++ b/||' | cut -f1 | grep '\.cpp$' | sed "s|^|$wt/|" | tr '\n' ' ')   # translation units carrying the demo-only delay are compiled with the macro
  if ! g++ -std=gnu++20 -O2 -DNDEBUG $extra -I$wt/src "$@" $d/demo.cpp $cpps $wt/_build/libbabylon.a -o /tmp/demo_$sid -lprotobuf -labsl_time -labsl_time_zone -labsl_base -labsl_strings -labsl_str_format_internal -labsl_hash -labsl_city -labsl_low_level_hash -labsl_raw_hash_set -labsl_throw_delegate -labsl_raw_logging_internal -labsl_int128 -lpthread > /tmp/demo_build_$sid.log 2>&1; then echo "$sid $mode: demo build failed (see /tmp/demo_build_$sid.log)"; res="$res $mode=buildfail"; continue; fi
  timeout 120 /tmp/demo_$sid > /tmp/demo_out_$sid_$mode.log 2>&1; rc=$?
  echo "$sid $mode: exit $rc | $(tail -2 /tmp/demo_out_$sid_$mode.log | tr '\n' ' ' | cut -c1-300)"
  res="$res $mode=exit$rc"
done
git checkout -q -- .
python3 - "$sid" "$res" <<'PY'
import json, sys
p = '/verif/seeded/%s/meta.json' % sys.argv[1]; m = json.load(open(p)); m['demonstration'] = sys.argv[2].strip(); json.dump(m, open(p, 'w'), indent=1)
PY
