import sys,json
t=sys.stdin.read(); t=t[t.index('{'):]
d=json.loads(t)
for c in d['configs']:
    print(c['config'],c['name'][:70],'| exec',c['executions'],'pruned',c['pruned'],'states',c['states'],'outc',c['distinct_outcomes'],'ok' if c['complete'] else 'INCOMPLETE',[ (v['outcome'],v['message'][:160],v['devs']) for v in c['violations']],[ (v['outcome'],v['message'][:300]) for v in c['errors']], 'wall',sum(i['wall_s'] for i in c['iterations']))
print('wall',d['wall_s'])
