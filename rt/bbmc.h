// bbmc.h — harness-side interface of the bbmc stateless model checker.
// Harness code is compiled with -fsanitize=thread instrumentation and linked
// against bbmc_rt.o (our runtime), never against libtsan.
#pragma once
#include <stddef.h>
#include <stdint.h>

namespace bbmc {

// ---- exploration control -------------------------------------------------
void quiet();                              // start of a deterministic set-up phase: no alternatives generated
void explore_begin();                      // alternatives are generated (again) after this marker
int choose(int n, bool is_fault = false);  // data choice enumerated by the explorer; fault => costs 1 E for non-zero
void observe(uint64_t v);                  // folded into the outcome hash

// ---- oracles ---------------------------------------------------------------
void check(bool ok, const char* what);    // property violation when !ok
void require(bool ok, const char* what);  // harness precondition; failure = machinery error
void race_scope(const void* p, size_t n);  // plain accesses to these bytes are HB-race checked
void race_scope_end(const void* p, size_t n);
void background(const void* p, size_t n);  // atomics on these bytes are not preemption points
// Plain (non-atomic) accesses to these bytes become scheduling points, as if they were relaxed atomics. For flags the code
// under test reads and writes without synchronisation on purpose (a benign race backed by a CAS elsewhere): without this
// the load and the store of a check-then-set on such a flag can never be separated by the explorer.
void interleave_plain(const void* p, size_t n);
void expect_progress(bool yes);  // deadlock/livelock is a property violation (default true)

// ---- time ------------------------------------------------------------------
void advance_clock(int64_t ns);
void set_clock(int64_t ns);
int64_t now_ns();
void sleeps_advance_clock(bool yes);  // default true

// ---- logical time stamps for call/return histories ----------------------------
// A visible RMW on a global counter: the real-time order of stamps is part of
// the state signature, so HB-caching stays sound for linearizability oracles.
// Also the way to mark progress in a harness loop whose iterations perform only identical atomic reads (e.g. looking up many
// keys of one hash group): without a visible write such a loop is indistinguishable from a polling loop and would be parked.
uint64_t step();

// ---- info --------------------------------------------------------------------
int thread_id();  // model thread id (0 = main)
bool is_tso();
int config();  // configuration id given to harness_main
void note(const char* fmt, ...) __attribute__((format(printf, 1, 2)));  // goes into replay traces only

// allocator bookkeeping (freed-memory oracle)
bool is_freed(const void* p);
uint64_t alloc_serial(const void* p);  // serial number of the arena block containing p (0 if none)

}  // namespace bbmc

// provided by the harness
struct BbmcConfigInfo {
  const char* name;  // short configuration label
};
int harness_configs();                      // number of configurations
const char* harness_config_name(int cfg);   // label
void harness_main(int cfg);                 // one execution of configuration cfg
const char* harness_name();
