// bbmc_rt.cpp — runtime + explorer of the bbmc stateless model checker (see DESIGN.md section 2, appendix A).
// Compiled WITHOUT sanitizer instrumentation; implements the __tsan_* ABI the instrumented code calls.
#include "rt_base.inc"
#include "rt_mem.inc"
#include "rt_sched.inc"
#include "rt_ops.inc"
#include "rt_api.inc"
#include "rt_driver.inc"
