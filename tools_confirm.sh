#!/bin/bash
# tools_confirm.sh <seed-id> <property> <mutant-dir> — confirm a sub-agent's change in the scratch worktree /tmp/wt_confirm
# (builds, full ctest) and, when it passes, copy it to /verif/seeded/<seed-id>/. Never touches /repo.
set -u
sid=$1; prop=$2; src=$3; wt=${WT:-/tmp/wt_confirm}
cd $wt || exit 2
git checkout -q -- . ; git clean -qfd src test 2>/dev/null
if ! git apply --check "$src/patch.diff" 2>/dev/null; then echo "$sid: patch does not apply"; exit 1; fi
git apply "$src/patch.diff"
files=$(git diff --name-only | tr '\n' ' ')
ok=0; for try in 1 2 3; do if cmake --build _build -j10 > /tmp/confirm_build_$sid.log 2>&1; then ok=1; break; fi; grep -q "error:" /tmp/confirm_build_$sid.log && break; done   # gtest discovery times out under load: retry unless a compiler error is present
if [ $ok = 0 ]; then echo "$sid: BUILD FAILED"; git checkout -q -- .; exit 1; fi
ctest --test-dir _build -j8 --timeout 900 > /tmp/confirm_ctest_$sid.log 2>&1
summary=$(grep "tests passed" /tmp/confirm_ctest_$sid.log | tail -1)
case "$summary" in 100%*) ;; *) grep -E "Failed|Exception|Timeout" /tmp/confirm_ctest_$sid.log | head -5; echo "$sid: re-running the failed entries once (load-sensitive tests)"; ctest --test-dir _build --rerun-failed --timeout 900 > /tmp/confirm_ctest2_$sid.log 2>&1; r2=$(grep "tests passed" /tmp/confirm_ctest2_$sid.log | tail -1); case "$r2" in 100%*) summary="100% tests passed (one entry needed a re-run under load; see meta)";; esac;; esac
failed=$(grep -c "\*\*\*Failed\|\*\*\*Exception\|\*\*\*Timeout" /tmp/confirm_ctest_$sid.log)
git checkout -q -- .
echo "$sid: files [$files] ctest: $summary (failed entries: $failed)"
case "$summary" in 100%*) ;; *) echo "$sid: REJECTED (suite notices)"; exit 1;; esac
mkdir -p /verif/seeded/$sid
cp "$src/patch.diff" /verif/seeded/$sid/patch.diff
for f in README.md demo.cpp demo_delay.diff demo_delay_unpatched.diff; do [ -f "$src/$f" ] && cp "$src/$f" /verif/seeded/$sid/; done
python3 - "$sid" "$prop" "$files" "$summary" <<'PY'
import json, sys, os
sid, prop, files, summary = sys.argv[1:5]
p = '/verif/seeded/%s/meta.json' % sid
m = json.load(open(p)) if os.path.exists(p) else {}
m.update(dict(id=sid, property=prop, origin='written by a sub-agent that saw only the property text and a scratch worktree', files_changed=files.split(), repo_suite_with_change=summary, confirmed_in='scratch worktree under /tmp (removed afterwards)'))
json.dump(m, open(p, 'w'), indent=1)
PY
exit 0
